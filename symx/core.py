"""symx core: symbolic scalars over z3 terms and the single-path execution engine.

The real DarSIA code is executed by CPython; symbolic scalars travel through numpy
``dtype=object`` arrays.  One Engine instance explores ONE path (a forked child of the
runner); branch decisions not fixed by the schedule prefix are decided by z3 and the
untaken feasible side is reported back as a pending schedule.
"""
from __future__ import annotations

import math
import time
from fractions import Fraction

import numpy as _np
import z3


class PathAbort(BaseException):
    """Current path is infeasible (assumption or branch unsat)."""


class Unsupported(BaseException):
    """The engine cannot represent this operation; the path is inconclusive."""


def rat(v) -> z3.ArithRef:
    """exact z3 Real constant from int/float/Fraction/str"""
    if isinstance(v, str):
        f = Fraction(v)
    elif isinstance(v, Fraction):
        f = v
    elif isinstance(v, (int, _np.integer)):
        return z3.RealVal(int(v))
    else:
        f = Fraction(float(v))
    return z3.RealVal(f"{f.numerator}/{f.denominator}")


class Engine:
    def __init__(self):
        self.active = False
        self.reset([])
        self.timeout_ms = 20000
        self.exact_literals = False
        self.abstract_norm = False
        self.const_mode = False

    def reset(self, schedule):
        self.schedule = list(schedule)
        self.pos = 0
        self.pc = []  # list of z3 Bool
        self.pending = []
        self.stats = dict(queries=0, solver_s=0.0, forks=0, branches=0, unknown_branches=0, sqrt=0)
        self.sqrt_memo = {}
        self.dens = []  # recorded denominators (z3 terms) that were not provably non-zero
        self._pcvars = []
        self.lemmas = []  # (name, z3 Bool) obligations recorded by abstractions
        self.notes = []

    # ---- solver plumbing
    @staticmethod
    def _vars(t):
        acc = set()
        seen = set()
        stack = [t]
        while stack:
            x = stack.pop()
            i = x.get_id()
            if i in seen:
                continue
            seen.add(i)
            if z3.is_const(x) and x.decl().kind() == z3.Z3_OP_UNINTERPRETED:
                acc.add(i)
            else:
                if z3.is_app(x) and x.decl().kind() == z3.Z3_OP_UNINTERPRETED:
                    acc.add(("f", x.decl().name()))
                stack.extend(x.children())
        return acc

    def _slice(self, cond, depth=None):
        """constraints in the cone of influence of cond (depth-limited closure if depth is given);
        any subset of the path condition is sound for an unsat verdict"""
        while len(self._pcvars) < len(self.pc):
            self._pcvars.append(self._vars(self.pc[len(self._pcvars)]))
        need = self._vars(cond)
        chosen = set()
        changed = True
        rounds = 0
        while changed and (depth is None or rounds < depth):
            changed = False
            rounds += 1
            add = set()
            for i, vs in enumerate(self._pcvars):
                if i not in chosen and vs & need:
                    chosen.add(i)
                    add |= vs
                    changed = True
            need |= add
        return [self.pc[i] for i in sorted(chosen)]

    def check_sliced(self, cond, timeout_ms=None):
        """feasibility of cond against the constraints in its cone of influence"""
        t = time.time()
        s = z3.Solver()
        s.set("timeout", timeout_ms or self.timeout_ms)
        for c in self._slice(cond):
            s.add(c)
        s.add(cond)
        r = s.check()
        self.stats["queries"] += 1
        self.stats["solver_s"] += time.time() - t
        self._last_solver = s
        return r

    def add(self, cond):
        """add a constraint without a feasibility query (stub contracts on fresh variables)"""
        if isinstance(cond, Sym):
            cond = cond.t
        if z3.is_true(cond):
            return
        self.pc.append(cond)

    def assume(self, cond):
        if isinstance(cond, Sym):
            cond = cond.t
        elif isinstance(cond, (bool, _np.bool_)):
            if not cond:
                raise PathAbort()
            return
        cond = z3.simplify(cond)
        if z3.is_true(cond):
            return
        if z3.is_false(cond):
            raise PathAbort()
        if self.check_sliced(cond) == z3.unsat:
            raise PathAbort()
        self.pc.append(cond)

    def branch(self, cond):
        cond = z3.simplify(cond)
        if z3.is_true(cond):
            return True
        if z3.is_false(cond):
            return False
        self.stats["branches"] += 1
        if self.pos < len(self.schedule):
            choice = self.schedule[self.pos]
        else:
            rt = self.check_sliced(cond)
            rf = self.check_sliced(z3.Not(cond))
            if rt == z3.unknown:
                rt = z3.sat
                self.stats["unknown_branches"] += 1
            if rf == z3.unknown:
                rf = z3.sat
                self.stats["unknown_branches"] += 1
            if rt == z3.sat and rf == z3.sat:
                choice = True
                self.pending.append(self.schedule[: self.pos] + [False])
                self.stats["forks"] += 1
            elif rt == z3.sat:
                choice = True
            elif rf == z3.sat:
                choice = False
            else:
                raise PathAbort()
            self.schedule.append(choice)
        self.pos += 1
        self.pc.append(cond if choice else z3.Not(cond))
        return choice

    def concretize_int(self, term, cap=None):
        """solver-guided case split over the values of an integer term (one path per value);
        with cap=N the N+1-th distinct value ends the path as unsupported (reported inconclusive)"""
        s = z3.simplify(term)
        if z3.is_int_value(s):
            return s.as_long()
        tried = 0
        while True:
            if cap is not None and tried >= cap:
                raise Unsupported(f"value enumeration of an integer term stopped after {cap} values")
            tried += 1
            sl = z3.Solver()
            sl.set("timeout", self.timeout_ms)
            for c in self._slice(term == z3.FreshInt("cz")):
                sl.add(c)
            t = time.time()
            r = sl.check()
            self.stats["queries"] += 1
            self.stats["solver_s"] += time.time() - t
            if r == z3.unsat:
                raise PathAbort()
            if r != z3.sat:
                raise Unsupported("cannot concretise (solver unknown)")
            v = sl.model().eval(term, model_completion=True)
            if not z3.is_int_value(v):
                raise Unsupported("cannot concretise")
            v = v.as_long()
            if self.branch(term == v):
                return v

    def nonzero(self, den):
        """record a symbolic denominator; abort the path if it is necessarily zero.
        Callers (harnesses) state den != 0 as precondition; the engine assumes it and records it."""
        d = z3.simplify(den)
        if z3.is_rational_value(d) or z3.is_int_value(d):
            if (d.numerator_as_long() if z3.is_rational_value(d) else d.as_long()) == 0:
                raise ZeroDivisionError("division by zero (concrete)")
            return
        self.dens.append(d)


ENGINE = Engine()


def _const(v):
    if isinstance(v, (bool, _np.bool_)):
        return z3.BoolVal(bool(v))
    if isinstance(v, (int, _np.integer)):
        return z3.IntVal(int(v))
    if isinstance(v, (float, _np.floating)):
        if math.isnan(v) or math.isinf(v):
            raise Unsupported("nan/inf constant")
        return rat(float(v))
    if isinstance(v, Fraction):
        return rat(v)
    raise Unsupported(f"constant of type {type(v)}")


def term(v):
    return v.t if isinstance(v, Sym) else _const(v)


def rterm(v):
    """term coerced to Real sort"""
    t = term(v)
    if z3.is_bool(t):
        t = z3.If(t, z3.RealVal(1), z3.RealVal(0))
    elif z3.is_int(t):
        t = z3.ToReal(t)
    return t


def tobool(v):
    if isinstance(v, Sym):
        t = v.t
        return t if z3.is_bool(t) else (t != 0)
    return z3.BoolVal(bool(v))


def wrap(t):
    if z3.is_bool(t):
        return SymBool(t)
    if z3.is_int(t):
        return SymInt(t)
    return SymReal(t)


def _kind_term(v):
    """(kind, arithmetic term) with kind in 'r','i' -- bools are coerced to 0/1 ints"""
    if isinstance(v, SymReal):
        return "r", v.t
    if isinstance(v, SymInt):
        return "i", v.t
    if isinstance(v, SymBool):
        return "i", z3.If(v.t, 1, 0)
    if isinstance(v, Sym):
        t = v.t
        if z3.is_bool(t):
            return "i", z3.If(t, 1, 0)
        return ("i" if z3.is_int(t) else "r"), t
    if isinstance(v, (bool, _np.bool_)):
        return "i", z3.IntVal(int(v))
    if isinstance(v, (int, _np.integer)):
        return "i", z3.IntVal(int(v))
    if isinstance(v, (float, _np.floating)):
        if math.isnan(v) or math.isinf(v):
            raise Unsupported("nan/inf constant")
        return "r", rat(float(v))
    if isinstance(v, Fraction):
        return "r", rat(v)
    raise Unsupported(f"constant of type {type(v)}")


def _arith3(a, b):
    ka, ta = _kind_term(a)
    kb, tb = _kind_term(b)
    if ka == kb:
        return ta, tb, ka == "i"
    if ka == "i":
        ta = z3.ToReal(ta)
    else:
        tb = z3.ToReal(tb)
    return ta, tb, False


def _arith(a, b):
    ta, tb, _ = _arith3(a, b)
    return ta, tb


_NUM = (int, float, _np.integer, _np.floating, bool, _np.bool_, Fraction)


class Sym:
    __slots__ = ("t",)

    def __init__(self, t):
        self.t = t

    def __repr__(self):
        return f"<{z3.simplify(self.t)}>"

    def copy(self):
        return self

    def __copy__(self):
        return self

    def __deepcopy__(self, memo):
        return self

    def __hash__(self):
        return hash(self.t)

    def __reduce__(self):
        return (_unpickle_sym, (self.t.sexpr(),))

    # arithmetic
    def _bin(self, o, f, r=False, res=None):
        if isinstance(o, _np.ndarray):
            if o.ndim == 0:
                o = o.item()
            else:
                g = (lambda e: self._bin(e, f, r, res))
                return _np.frompyfunc(g, 1, 1)(o)
        if not isinstance(o, (Sym,) + _NUM):
            return NotImplemented
        if type(o).__name__ == "SymFP" and type(self).__name__ != "SymFP":
            return NotImplemented  # the floating-point operand's reflected method takes over
        a, b = (o, self) if r else (self, o)
        ta, tb, isint = _arith3(a, b)
        if res == "real":
            return SymReal(f(ta, tb))
        return (SymInt if isint else SymReal)(f(ta, tb))

    def __add__(s, o):
        return s._bin(o, lambda a, b: a + b)

    def __radd__(s, o):
        return s._bin(o, lambda a, b: a + b, True)

    def __sub__(s, o):
        return s._bin(o, lambda a, b: a - b)

    def __rsub__(s, o):
        return s._bin(o, lambda a, b: a - b, True)

    def __mul__(s, o):
        return s._bin(o, lambda a, b: a * b)

    def __rmul__(s, o):
        return s._bin(o, lambda a, b: a * b, True)

    @staticmethod
    def _div(a, b):
        if z3.is_int(a):
            a = z3.ToReal(a)
        if z3.is_int(b):
            b = z3.ToReal(b)
        ENGINE.nonzero(b)
        return a / b

    def __truediv__(s, o):
        return s._bin(o, Sym._div, False, "real")

    def __rtruediv__(s, o):
        return s._bin(o, Sym._div, True, "real")

    @staticmethod
    def _floordiv(a, b):
        if z3.is_int(a) and z3.is_int(b):
            ENGINE.nonzero(b)
            # python floor division; z3 integer division is euclidean (equal for b > 0)
            return z3.If(b > 0, a / b, z3.ToInt(z3.ToReal(a) / z3.ToReal(b)))
        q = z3.ToInt(Sym._div(a, b))
        return z3.ToReal(q)

    def __floordiv__(s, o):
        return s._bin(o, Sym._floordiv)

    def __rfloordiv__(s, o):
        return s._bin(o, Sym._floordiv, True)

    @staticmethod
    def _mod(a, b):
        if z3.is_int(a) and z3.is_int(b):
            return a - b * Sym._floordiv(a, b)
        a2 = z3.ToReal(a) if z3.is_int(a) else a
        b2 = z3.ToReal(b) if z3.is_int(b) else b
        ENGINE.nonzero(b2)
        return a2 - b2 * z3.ToReal(z3.ToInt(a2 / b2))

    def __mod__(s, o):
        return s._bin(o, Sym._mod)

    def __rmod__(s, o):
        return s._bin(o, Sym._mod, True)

    def __pow__(s, o):
        if isinstance(o, Sym):
            v = z3.simplify(o.t)
            if z3.is_int_value(v):
                o = v.as_long()
            elif z3.is_rational_value(v):
                o = float(Fraction(v.numerator_as_long(), v.denominator_as_long()))
        if isinstance(o, (float, _np.floating)) and float(o).is_integer():
            o = int(o)
        if isinstance(o, (int, _np.integer)) and o >= 0:
            r = 1
            for _ in range(int(o)):
                r = r * s
            return r
        if isinstance(o, (int, _np.integer)) and o < 0:
            return 1 / (s ** (-o))
        if isinstance(o, (float, _np.floating)) and o == 0.5:
            return s.sqrt()
        raise Unsupported(f"pow {o!r}")

    def __rpow__(s, o):
        v = z3.simplify(s.t)
        if z3.is_int_value(v):
            return o ** v.as_long()
        raise Unsupported("symbolic exponent")

    def __neg__(s):
        return wrap(-_arith(s, 0)[0])

    def __pos__(s):
        return s

    def __abs__(s):
        t = _arith(s, 0)[0]
        return wrap(z3.If(t >= 0, t, -t))

    def __invert__(s):
        if z3.is_bool(s.t):
            return SymBool(z3.Not(s.t))
        raise Unsupported("~ on non-bool")

    def __and__(s, o):
        if isinstance(o, _np.ndarray):
            return _np.frompyfunc(lambda e: s & e, 1, 1)(o)
        return SymBool(z3.And(tobool(s), tobool(o)))

    __rand__ = __and__

    def __or__(s, o):
        if isinstance(o, _np.ndarray):
            return _np.frompyfunc(lambda e: s | e, 1, 1)(o)
        return SymBool(z3.Or(tobool(s), tobool(o)))

    __ror__ = __or__

    def __xor__(s, o):
        return SymBool(z3.Xor(tobool(s), tobool(o)))

    __rxor__ = __xor__

    # comparisons
    def _cmp(self, o, f):
        if isinstance(o, _np.ndarray):
            if o.ndim == 0:
                o = o.item()
            else:
                return _np.frompyfunc(lambda e: self._cmp(e, f), 1, 1)(o)
        if o is None:
            return NotImplemented
        if not isinstance(o, (Sym,) + _NUM):
            return NotImplemented
        if type(o).__name__ == "SymFP" and type(self).__name__ != "SymFP":
            return NotImplemented
        if isinstance(self, SymBool) and isinstance(o, (SymBool, bool, _np.bool_)):
            ta, tb = z3.If(self.t, 1, 0), z3.If(tobool(o), 1, 0)
            return SymBool(f(ta, tb))
        ta, tb, _ = _arith3(self, o)
        return SymBool(f(ta, tb))

    def __lt__(s, o):
        return s._cmp(o, lambda a, b: a < b)

    def __le__(s, o):
        return s._cmp(o, lambda a, b: a <= b)

    def __gt__(s, o):
        return s._cmp(o, lambda a, b: a > b)

    def __ge__(s, o):
        return s._cmp(o, lambda a, b: a >= b)

    def __eq__(s, o):
        return s._cmp(o, lambda a, b: a == b)

    def __ne__(s, o):
        return s._cmp(o, lambda a, b: a != b)

    def __bool__(s):
        t = s.t
        if not z3.is_bool(t):
            t = t != 0
        return ENGINE.branch(t)

    # numeric protocols
    def __floor__(s):
        return s if z3.is_int(s.t) else SymInt(z3.ToInt(s.t))

    def __ceil__(s):
        return s if z3.is_int(s.t) else SymInt(-z3.ToInt(-s.t))

    def __trunc__(s):
        if z3.is_int(s.t):
            return s
        if z3.is_bool(s.t):
            return SymInt(z3.If(s.t, 1, 0))
        return SymInt(z3.If(s.t >= 0, z3.ToInt(s.t), -z3.ToInt(-s.t)))

    def __round__(s, n=None):
        if n not in (None, 0):
            raise Unsupported("round digits")
        if z3.is_int(s.t):
            return s
        f = z3.ToInt(s.t)
        d = s.t - z3.ToReal(f)
        half_even = z3.If(f % 2 == 0, f, f + 1)
        return SymInt(z3.If(d < rat("1/2"), f, z3.If(d > rat("1/2"), f + 1, half_even)))

    def rint(s):
        if z3.is_int(s.t):
            return s
        return SymReal(z3.ToReal(s.__round__().t))

    def floor_real(s):
        if z3.is_int(s.t):
            return s
        return SymReal(z3.ToReal(z3.ToInt(s.t)))

    def ceil_real(s):
        if z3.is_int(s.t):
            return s
        return SymReal(z3.ToReal(-z3.ToInt(-s.t)))

    def sqrt(s):
        x = z3.simplify(rterm(s))
        if z3.is_rational_value(x):
            f = Fraction(x.numerator_as_long(), x.denominator_as_long())
            if f >= 0:
                n, d = math.isqrt(f.numerator), math.isqrt(f.denominator)
                if n * n == f.numerator and d * d == f.denominator:
                    return SymReal(rat(Fraction(n, d)))
        if ENGINE.const_mode and z3.is_rational_value(x):
            return SymReal(rat(math.sqrt(float(Fraction(x.numerator_as_long(), x.denominator_as_long())))))
        key = x.sexpr()
        if key in ENGINE.sqrt_memo:
            return SymReal(ENGINE.sqrt_memo[key])
        y = z3.FreshReal("sqrt")
        ENGINE.sqrt_memo[key] = y
        ENGINE.stats["sqrt"] += 1
        ENGINE.add(z3.And(y >= 0, y * y == x))
        return SymReal(y)

    def conjugate(s):
        return s

    @property
    def real(s):
        return s

    def __index__(s):
        if z3.is_bool(s.t):
            raise Unsupported("index of bool")
        if not z3.is_int(s.t):
            # like a python float: no __index__
            raise TypeError("'float' object cannot be interpreted as an integer")
        return ENGINE.concretize_int(s.t)

    def __int__(s):
        return ENGINE.concretize_int(s.__trunc__().t)

    def __float__(s):
        v = z3.simplify(s.t)
        if z3.is_rational_value(v):
            return float(Fraction(v.numerator_as_long(), v.denominator_as_long()))
        if z3.is_int_value(v):
            return float(v.as_long())
        if z3.is_true(v):
            return 1.0
        if z3.is_false(v):
            return 0.0
        raise Unsupported(f"float() of symbolic value {str(s.t)[:80]}")

    def astype(s, T, *a, **k):
        from . import npx

        return npx.sx_astype(s, T)

    def item(s):
        return s

    @property
    def shape(s):
        return ()

    @property
    def ndim(s):
        return 0

    @property
    def dtype(s):
        if isinstance(s, SymBool):
            return _np.dtype(bool)
        if isinstance(s, SymInt):
            return _np.dtype(_np.int64)
        return _np.dtype(_np.float64)


class SymReal(Sym):
    __slots__ = ()


class SymInt(Sym):
    __slots__ = ()


class SymBool(Sym):
    __slots__ = ()


def _unpickle_sym(sexpr):  # only used for debugging dumps
    raise Unsupported("Sym values cannot be unpickled")


def real(name):
    return SymReal(z3.Real(name))


def integer(name):
    return SymInt(z3.Int(name))


def boolean(name):
    return SymBool(z3.Bool(name))


def const_real(v):
    return SymReal(rat(v))


def const_int(v):
    return SymInt(z3.IntVal(int(v)))


def const_bool(v):
    return SymBool(z3.BoolVal(bool(v)))


def value_of(x):
    """concrete python value of a Sym that simplifies to a constant, else None"""
    if not isinstance(x, Sym):
        return x
    v = z3.simplify(x.t)
    if z3.is_int_value(v):
        return v.as_long()
    if z3.is_rational_value(v):
        return Fraction(v.numerator_as_long(), v.denominator_as_long())
    if z3.is_true(v):
        return True
    if z3.is_false(v):
        return False
    if z3.is_algebraic_value(v):
        return float(v.approx(20).as_fraction())
    return None
