"""symx: shadow symbolic execution of DarSIA's real numpy code with z3."""
