"""numpy proxy + the runtime helpers the AST rewriter targets (sx_*).

All helpers are the identity (plain numpy / builtins) on values that contain no symbolic
scalar.  ``dtype=object`` arrays are the carrier of symbolic scalars.
"""
from __future__ import annotations

import math as _math
import numbers
import operator
from fractions import Fraction

import numpy as _np
import z3

from .core import (
    ENGINE,
    Sym,
    SymBool,
    SymInt,
    SymReal,
    Unsupported,
    _arith,
    rat,
    rterm,
    term,
    tobool,
    wrap,
)

_FLOATS = (float, _np.float64, _np.float32, _np.float16, "float", "float64", "float32", _np.double, _np.floating)
_INTS = (int, _np.int64, _np.int32, _np.intp, "int", "int64", "int32", _np.integer, _np.int_)
_BOOLS = (bool, _np.bool_, "bool")


def _norm_dtype(T):
    if isinstance(T, _np.dtype):
        if T.kind == "f":
            return "f"
        if T.kind in "iu":
            return "i" if T.kind == "i" else "u"
        if T.kind == "b":
            return "b"
        if T.kind == "O":
            return "O"
        return None
    if T in _FLOATS:
        return "f"
    if T in _INTS:
        return "i"
    if T in _BOOLS:
        return "b"
    if T is object:
        return "O"
    try:
        return _norm_dtype(_np.dtype(T))
    except Exception:
        return None


def is_symarr(a):
    return isinstance(a, _np.ndarray) and a.dtype == object


def has_sym(a):
    if isinstance(a, Sym):
        return True
    if isinstance(a, _np.ndarray):
        return a.dtype == object
    if isinstance(a, (list, tuple)):
        return any(has_sym(x) for x in a)
    return False


def _base(a):
    """plain ndarray view (subclasses such as darsia's point arrays override __getitem__)"""
    return a if type(a) is _np.ndarray else a.view(_np.ndarray)


def really_sym(a):
    """contains at least one Sym instance"""
    if isinstance(a, Sym):
        return True
    if isinstance(a, _np.ndarray):
        return a.dtype == object and any(isinstance(e, Sym) for e in _base(a).ravel())
    if isinstance(a, (list, tuple)):
        return any(really_sym(x) for x in a)
    return False


def demote(a):
    """object array without symbolic entries -> numeric array (bool / int / float)"""
    if not is_symarr(a):
        return a
    flat = _base(a).ravel()
    if any(isinstance(e, Sym) for e in flat):
        return a
    if a.size == 0:
        return a.astype(float)
    if all(isinstance(e, (bool, _np.bool_)) for e in flat):
        return a.astype(bool)
    if all(isinstance(e, (int, _np.integer)) and not isinstance(e, (bool, _np.bool_)) for e in flat):
        return a.astype(int)
    if all(isinstance(e, (int, float, _np.integer, _np.floating, bool, _np.bool_, Fraction)) for e in flat):
        return a.astype(float)
    return a


def obj(a):
    """array as object dtype holding python scalars"""
    a = _np.asarray(a)
    if a.dtype == object:
        return a
    return a.astype(object)


def _vec(f, n=1):
    return _np.frompyfunc(f, n, 1)


def _e_floor(x):
    if isinstance(x, Sym):
        return x.floor_real()
    if isinstance(x, (int, _np.integer)):
        return x
    return float(_math.floor(x))


def _e_ceil(x):
    if isinstance(x, Sym):
        return x.ceil_real()
    if isinstance(x, (int, _np.integer)):
        return x
    return float(_math.ceil(x))


def _e_rint(x):
    if isinstance(x, Sym):
        return x.rint()
    if isinstance(x, (int, _np.integer)):
        return x
    return float(_np.round(x))


def _e_trunc_int(x):
    if isinstance(x, Sym):
        return x.__trunc__()
    return int(x)


def _isfp(x):
    from .fp import SymFP

    return isinstance(x, SymFP)


def _e_float(x):
    if isinstance(x, Sym):
        if isinstance(x, SymReal) or _isfp(x):
            return x
        return SymReal(rterm(x))
    return float(x)


def _e_bool(x):
    if isinstance(x, Sym):
        return x if isinstance(x, SymBool) else SymBool(tobool(x))
    return bool(x)


def _e_abs(x):
    return abs(x)


def _e_sqrt(x):
    if isinstance(x, Sym):
        return x.sqrt()
    return _math.sqrt(x)


def _e_sign(x):
    if isinstance(x, Sym):
        t = _arith(x, 0)[0]
        one = 1 if z3.is_int(t) else rat(1)
        return wrap(z3.If(t > 0, one, z3.If(t < 0, -one, one - one)))
    return _np.sign(x)


def _ite(c, a, b):
    """scalar ite on python / Sym values"""
    if not isinstance(c, Sym):
        return a if c else b
    if isinstance(a, (SymBool, bool, _np.bool_)) and isinstance(b, (SymBool, bool, _np.bool_)):
        return SymBool(z3.If(tobool(c), tobool(a), tobool(b)))
    ta, tb = _arith(a, b)
    return wrap(z3.If(tobool(c), ta, tb))


def _e_max(x, y):
    if _isfp(x) or _isfp(y):
        from .fp import SymFP, fpval

        return SymFP(z3.If(z3.fpGEQ(fpval(x), fpval(y)), fpval(x), fpval(y)))
    if isinstance(x, Sym) or isinstance(y, Sym):
        tx, ty = _arith(x, y)
        return wrap(z3.If(tx >= ty, tx, ty))
    return x if x >= y else y


def _e_min(x, y):
    if _isfp(x) or _isfp(y):
        from .fp import SymFP, fpval

        return SymFP(z3.If(z3.fpLEQ(fpval(x), fpval(y)), fpval(x), fpval(y)))
    if isinstance(x, Sym) or isinstance(y, Sym):
        tx, ty = _arith(x, y)
        return wrap(z3.If(tx <= ty, tx, ty))
    return x if x <= y else y


def _e_and(x, y):
    if isinstance(x, Sym) or isinstance(y, Sym):
        return SymBool(z3.And(tobool(x), tobool(y)))
    return bool(x) and bool(y)


def _e_or(x, y):
    if isinstance(x, Sym) or isinstance(y, Sym):
        return SymBool(z3.Or(tobool(x), tobool(y)))
    return bool(x) or bool(y)


def _e_not(x):
    if isinstance(x, Sym):
        return SymBool(z3.Not(tobool(x)))
    return not bool(x)


# ------------------------------------------------------------------ rewrite targets


def sx_astype(x, T=None, *a, **k):
    if T is None and "dtype" in k:
        T = k.pop("dtype")
    if isinstance(x, Sym) or is_symarr(x):
        kind = _norm_dtype(T)
        if kind == "i":
            r = _vec(_e_trunc_int)(x)
            return demote(r) if isinstance(r, _np.ndarray) else r
        if kind == "f":
            return _vec(_e_float)(x)
        if kind == "b":
            r = _vec(_e_bool)(x)
            return demote(r) if isinstance(r, _np.ndarray) else r
        if kind == "O":
            return x.copy() if isinstance(x, _np.ndarray) else x
        if kind == "u" and not really_sym(x):
            return demote(x).astype(T, *a, **k)
        raise Unsupported(f"astype({T}) on symbolic data")
    if ENGINE.active and isinstance(x, _np.ndarray) and _norm_dtype(T) == "O":
        return obj(x)
    return x.astype(T, *a, **k)


def sx_isinstance(x, T):
    if isinstance(x, Sym):
        Ts = T if isinstance(T, tuple) else (T,)
        flat = []
        for t in Ts:
            if isinstance(t, tuple):
                flat.extend(t)
            else:
                flat.append(t)
        if isinstance(x, SymBool):
            if any(t in (bool, _np.bool_) for t in flat):
                return True
        elif isinstance(x, SymInt):
            if any(t in (int, _np.integer, _np.int64, _np.int32, numbers.Integral, numbers.Real, numbers.Number, _np.number) for t in flat):
                return True
        elif isinstance(x, SymReal) or _isfp(x):
            if any(t in (float, _np.floating, _np.float64, _np.float32, numbers.Real, numbers.Number, _np.number) for t in flat):
                return True
        return isinstance(x, T)
    return isinstance(x, T)


def logical_dtype(x):
    flat = _base(x).ravel()
    if len(flat) == 0:
        return _np.dtype(_np.float64)
    if all(isinstance(e, (SymBool, bool, _np.bool_)) for e in flat):
        return _np.dtype(bool)
    if all(isinstance(e, (SymInt, int, _np.integer)) and not isinstance(e, (bool, _np.bool_)) for e in flat):
        return _np.dtype(_np.int64)
    return _np.dtype(_np.float64)


def sx_dtype(x):
    if ENGINE.active and isinstance(x, _np.ndarray) and x.dtype == object:
        return logical_dtype(x)
    return x.dtype


def sx_int(x=0, *a):
    if isinstance(x, Sym):
        return x.__trunc__()
    if isinstance(x, _np.ndarray) and x.dtype == object and x.size == 1:
        e = x.ravel()[0]
        return e.__trunc__() if isinstance(e, Sym) else int(e)
    return int(x, *a)


def sx_float(x=0.0):
    if isinstance(x, Sym):
        return _e_float(x)
    if isinstance(x, _np.ndarray) and x.dtype == object and x.size == 1:
        return _e_float(x.ravel()[0])
    return float(x)


def sx_bool(x=False):
    if isinstance(x, Sym):
        return _e_bool(x)
    return bool(x)


def sx_min(*args, **kw):
    if kw or not has_sym(args if len(args) > 1 else args[0]):
        return min(*args, **kw)
    items = list(args) if len(args) > 1 else list(args[0])
    r = items[0]
    for e in items[1:]:
        r = _e_min(r, e)
    return r


def sx_max(*args, **kw):
    if kw or not has_sym(args if len(args) > 1 else args[0]):
        return max(*args, **kw)
    items = list(args) if len(args) > 1 else list(args[0])
    r = items[0]
    for e in items[1:]:
        r = _e_max(r, e)
    return r


_OPS = {"lt": operator.lt, "le": operator.le, "gt": operator.gt, "ge": operator.ge, "eq": operator.eq, "ne": operator.ne}


def sx_cmp(op, a, b):
    f = _OPS[op]
    if has_sym(a) or has_sym(b):
        if isinstance(a, _np.ndarray) or isinstance(b, _np.ndarray) or (
            isinstance(a, (list, tuple)) and isinstance(b, _np.ndarray)
        ):
            r = _vec(f, 2)(a, b)
            return demote(r) if isinstance(r, _np.ndarray) else r
    return f(a, b)


def _is_symmask(k):
    return isinstance(k, _np.ndarray) and k.dtype == object and any(isinstance(e, SymBool) for e in _base(k).ravel())


def _demote_key(k):
    if isinstance(k, tuple):
        return tuple(_demote_key(x) for x in k)
    if isinstance(k, Sym):
        if isinstance(k, SymBool):
            raise Unsupported("symbolic scalar bool index")
        return k.__index__()
    if isinstance(k, slice):
        f = lambda v: v.__index__() if isinstance(v, Sym) else v  # noqa: E731
        return slice(f(k.start), f(k.stop), f(k.step))
    if isinstance(k, _np.ndarray) and k.dtype == object:
        flat = _base(k).ravel()
        if any(isinstance(e, SymBool) for e in flat):
            return k
        if k.size and all(isinstance(e, (bool, _np.bool_)) for e in flat):
            return k.astype(bool)
        return _np.array([e.__index__() if isinstance(e, Sym) else int(e) for e in flat], dtype=int).reshape(k.shape)
    if isinstance(k, list) and has_sym(k):
        return [_demote_key(x) for x in k]
    return k


def _key_has_symmask(k):
    if isinstance(k, tuple):
        return any(_is_symmask(x) for x in k)
    return _is_symmask(k)


def sx_getitem(x, k):
    if not ENGINE.active:
        return x[k]
    if isinstance(x, _np.ndarray):
        if _key_has_symmask(k):
            raise Unsupported("getitem with symbolic mask (result shape depends on values)")
        return x[_demote_key(k)]
    if isinstance(k, Sym):
        if isinstance(x, dict):
            v = z3.simplify(k.t)
            if z3.is_int_value(v):
                return x[v.as_long()]
            return x[k.__index__()]
        return x[k.__index__()]
    if isinstance(k, slice) and has_sym([k.start, k.stop, k.step]):
        return x[_demote_key(k)]
    return x[k]


def _merge_mask(x, mask, v):
    vb = _np.broadcast_to(_np.asarray(v, dtype=object), x.shape) if not (isinstance(v, _np.ndarray) and v.shape == x.shape) else v
    mb = _np.broadcast_to(mask, x.shape)
    for idx in _np.ndindex(*x.shape):
        x[idx] = _ite(mb[idx], vb[idx], x[idx])


def sx_setitem(x, k, v):
    if not ENGINE.active:
        x[k] = v
        return
    if isinstance(x, _np.ndarray):
        if _key_has_symmask(k):
            if x.dtype != object:
                raise Unsupported("symbolic mask assignment into numeric array")
            if isinstance(k, tuple):
                # (mask, i): mask over leading axes, remaining keys concrete
                if _is_symmask(k[0]) and not any(_is_symmask(e) for e in k[1:]):
                    rest = _demote_key(k[1:])
                    m = k[0]
                    sub_idx = (slice(None),) * m.ndim + rest
                    target = x[sub_idx]
                    if not isinstance(target, _np.ndarray) or not _np.shares_memory(target, x):
                        raise Unsupported("mask+fancy assignment")
                    mm = m.reshape(m.shape + (1,) * (target.ndim - m.ndim))
                    _merge_mask(target, mm, v)
                    return
                raise Unsupported("tuple key with symbolic mask")
            m = k
            if m.shape != x.shape:
                m = m.reshape(m.shape + (1,) * (x.ndim - m.ndim))
            _merge_mask(x, m, v)
            return
        if x.dtype != object and really_sym(v):
            if x.dtype.kind in "iu":
                # numpy truncates towards zero on assignment into an integer array; the truncated value
                # is concretised by a solver-guided case split (one path per distinct value)
                x[_demote_key(k)] = _trunc_concretize(v)
                return
            raise Unsupported(f"assignment of symbolic data into numeric {x.dtype} array")
        x[_demote_key(k)] = v
        return
    if isinstance(k, Sym):
        v0 = z3.simplify(k.t)
        k = v0.as_long() if z3.is_int_value(v0) else k.__index__()
    x[k] = v


def _trunc_concretize(v):
    from .core import SymInt, SymReal, term

    def one(e):
        if isinstance(e, SymInt):
            return ENGINE.concretize_int(term(e), cap=3)
        if isinstance(e, SymReal):
            t = term(e)
            return ENGINE.concretize_int(z3.If(t >= 0, z3.ToInt(t), -z3.ToInt(-t)), cap=3)
        if isinstance(e, Sym):
            raise Unsupported("assignment of a symbolic non-number into an integer array")
        return int(e)

    if isinstance(v, _np.ndarray):
        out = _np.empty(v.shape, dtype=_np.int64)
        for i in _np.ndindex(*v.shape):
            out[i] = one(v[i])
        return out
    return one(v)


def _is_pyint(x):
    return isinstance(x, (int, _np.integer)) and not isinstance(x, (bool, _np.bool_))


def sx_div(a, b):
    """a / b.  Integer / integer is an exact rational while the engine is active (python would
    round it to a double, which an exact-real claim then sees as a 1e-17 discrepancy)."""
    if ENGINE.active and _is_pyint(a) and _is_pyint(b) and b != 0 and a % b != 0:
        from .core import SymReal

        return SymReal(rat(Fraction(int(a), int(b))))
    return a / b


def sx_jit(*a, **k):
    """numba decorators become the identity: the Python body is executed symbolically"""
    if len(a) == 1 and callable(a[0]) and not k:
        return a[0]
    return lambda f: f


def sx_lit(v, text):
    if ENGINE.active and ENGINE.exact_literals:
        try:
            return SymReal(rat(Fraction(text)))
        except Exception:
            return v
    return v


# ------------------------------------------------------------------ numpy proxy


def _obj_filled(shape, v):
    a = _np.empty(shape, dtype=object)
    a[...] = v
    return a


def _exact_inverse(A):
    """exact rational inverse of a constant matrix (Gauss-Jordan over Fractions), as constants"""
    from .core import const_real

    A = _np.asarray(A, dtype=object)
    k = A.shape[0]
    M = [[Fraction(float(A[i, j])) for j in range(k)] + [Fraction(int(i == j)) for j in range(k)] for i in range(k)]
    for c in range(k):
        piv = next((r for r in range(c, k) if M[r][c] != 0), None)
        if piv is None:
            raise _np.linalg.LinAlgError("Singular matrix")
        M[c], M[piv] = M[piv], M[c]
        pv = M[c][c]
        M[c] = [v / pv for v in M[c]]
        for r in range(k):
            if r != c and M[r][c] != 0:
                f = M[r][c]
                M[r] = [a - f * b for a, b in zip(M[r], M[c])]
    out = _np.empty((k, k), dtype=object)
    for i in range(k):
        for j in range(k):
            out[i, j] = const_real(M[i][k + j])
    return out


class _Linalg:
    def __getattr__(self, name):
        return getattr(_np.linalg, name)

    def norm(self, x, ord=None, axis=None, keepdims=False):
        if not has_sym(x):
            return _np.linalg.norm(x, ord=ord, axis=axis, keepdims=keepdims)
        x = _np.asarray(x, dtype=object)
        if ENGINE.abstract_norm and getattr(ENGINE, "norm_hook", None) is not None:
            return ENGINE.norm_hook(x, ord, axis)
        if axis is None:
            flat = x.ravel()
            return self._norm1(flat, ord)
        xs = _np.moveaxis(x, axis, -1)
        out = _np.empty(xs.shape[:-1], dtype=object)
        for idx in _np.ndindex(*xs.shape[:-1]):
            out[idx] = self._norm1(xs[idx], ord)
        if keepdims:
            out = _np.expand_dims(out, axis)
        return out

    @staticmethod
    def _norm1(v, ord):
        if ord in (None, 2, "fro"):
            s = 0
            for e in v:
                s = s + e * e
            return _e_sqrt(s) if isinstance(s, Sym) else _math.sqrt(s)
        if ord == 1:
            s = 0
            for e in v:
                s = s + abs(e)
            return s
        if ord in (_np.inf, float("inf")):
            r = abs(v[0])
            for e in v[1:]:
                r = _e_max(r, abs(e))
            return r
        raise Unsupported(f"norm ord={ord}")

    def inv(self, A):
        if not has_sym(A):
            return _np.linalg.inv(A)
        if not really_sym(A) and ENGINE.active and not ENGINE.const_mode:
            return _exact_inverse(A)
        hook = getattr(ENGINE, "inv_hook", None)
        if hook is None:
            raise Unsupported("np.linalg.inv on symbolic matrix without stub")
        return hook(A)

    def solve(self, A, b):
        if not (has_sym(A) or has_sym(b)):
            return _np.linalg.solve(A, b)
        hook = getattr(ENGINE, "solve_hook", None)
        if hook is None:
            raise Unsupported("np.linalg.solve on symbolic data without stub")
        return hook(A, b)

    def lstsq(self, A, b, rcond=None):
        if not (has_sym(A) or has_sym(b)):
            return _np.linalg.lstsq(A, b, rcond=rcond)
        hook = getattr(ENGINE, "lstsq_hook", None)
        if hook is None:
            raise Unsupported("np.linalg.lstsq on symbolic data without stub")
        return hook(A, b)

    def det(self, A):
        if not has_sym(A):
            return _np.linalg.det(A)
        A = _np.asarray(A, dtype=object)
        n = A.shape[0]
        if n == 1:
            return A[0, 0]
        if n == 2:
            return A[0, 0] * A[1, 1] - A[0, 1] * A[1, 0]
        if n == 3:
            return (
                A[0, 0] * (A[1, 1] * A[2, 2] - A[1, 2] * A[2, 1])
                - A[0, 1] * (A[1, 0] * A[2, 2] - A[1, 2] * A[2, 0])
                + A[0, 2] * (A[1, 0] * A[2, 1] - A[1, 1] * A[2, 0])
            )
        raise Unsupported("det n>3")


class _Random:
    def __getattr__(self, name):
        return getattr(_np.random, name)

    def seed(self, *a, **k):
        hook = getattr(ENGINE, "seed_hook", None)
        if ENGINE.active and hook is not None:
            return hook(*a, **k)
        return _np.random.seed(*a, **k)


class _F64Meta(type(_np.float64)):
    """np.float64 as seen by instrumented modules: still a dtype specifier equal to float64
    (x.dtype == np.float64, dtype=np.float64, isinstance checks), but calling it keeps symbols"""

    def __instancecheck__(cls, x):
        return isinstance(x, _np.float64)

    def __eq__(cls, other):
        return other is cls or other is _np.float64

    def __ne__(cls, other):
        return not cls.__eq__(other)

    def __hash__(cls):
        return hash(_np.float64)


class _F64(_np.float64, metaclass=_F64Meta):
    def __new__(cls, x=0.0):
        if has_sym(x) and not isinstance(x, _np.ndarray):
            return sx_float(x)
        return _np.float64(x)


class NumpyProxy:
    """Forwards to numpy; float allocations become object arrays while the engine is active."""

    linalg = _Linalg()
    random = _Random()

    def __getattr__(self, name):
        return getattr(_np, name)

    # --- allocation
    @staticmethod
    def _symalloc(dtype):
        return ENGINE.active and _norm_dtype(dtype if dtype is not None else float) == "f"

    def zeros(self, shape, dtype=float, **k):
        if self._symalloc(dtype):
            return _obj_filled(shape, 0.0)
        if ENGINE.active and _norm_dtype(dtype) == "b":
            # a boolean work array may receive symbolic truth values (masks): carrier array of False
            return _obj_filled(shape, False)
        return _np.zeros(shape, dtype=dtype, **k)

    def ones(self, shape, dtype=float, **k):
        if self._symalloc(dtype):
            return _obj_filled(shape, 1.0)
        return _np.ones(shape, dtype=dtype, **k)

    def empty(self, shape, dtype=float, **k):
        if self._symalloc(dtype):
            return _obj_filled(shape, 0.0)
        return _np.empty(shape, dtype=dtype, **k)

    def full(self, shape, fill_value, dtype=None, **k):
        if ENGINE.active and (isinstance(fill_value, Sym) or (dtype is None and isinstance(fill_value, float)) or (dtype is not None and _norm_dtype(dtype) == "f")):
            return _obj_filled(shape, fill_value)
        return _np.full(shape, fill_value, dtype=dtype, **k)

    def _like(self, proto, dtype, v):
        if ENGINE.active:
            if dtype is None:
                if is_symarr(proto):
                    ld = logical_dtype(proto)
                    if ld.kind == "f":
                        return _obj_filled(_np.shape(proto), float(v))
                    if really_sym(proto):
                        return _obj_filled(_np.shape(proto), bool(v) if ld.kind == "b" else int(v))
                    return _np.full(_np.shape(proto), v, dtype=ld)
                if isinstance(proto, _np.ndarray) and proto.dtype.kind == "f":
                    return _obj_filled(proto.shape, float(v))
                if isinstance(proto, (list, tuple)) and has_sym(proto):
                    return _obj_filled(_np.shape(_np.asarray(proto, dtype=object)), float(v))
            elif _norm_dtype(dtype) == "f":
                return _obj_filled(_np.shape(proto), float(v))
            elif _norm_dtype(dtype) == "i" and really_sym(proto):
                # an integer work array shaped like symbolic data will receive symbolic values
                return _obj_filled(_np.shape(proto), int(v))
        return None

    @staticmethod
    def _reshaped_like(r, k):
        """numpy's *_like(..., shape=...) override"""
        shp = k.get("shape")
        if shp is None or r is None:
            return r
        shp = (int(shp),) if _np.ndim(shp) == 0 else tuple(int(x) for x in shp)
        out = _np.empty(shp, dtype=r.dtype)
        out[...] = r.ravel()[0] if r.size else 0
        return out

    def zeros_like(self, proto, dtype=None, **k):
        r = self._reshaped_like(self._like(proto, dtype, 0), k)
        if r is not None:
            return r
        if is_symarr(proto):
            return _np.zeros(k.get("shape") if k.get("shape") is not None else proto.shape, dtype=dtype)
        return _np.zeros_like(proto, dtype=dtype, **k)

    def ones_like(self, proto, dtype=None, **k):
        r = self._reshaped_like(self._like(proto, dtype, 1), k)
        if r is not None:
            return r
        if is_symarr(proto):
            return _np.ones(k.get("shape") if k.get("shape") is not None else proto.shape, dtype=dtype)
        return _np.ones_like(proto, dtype=dtype, **k)

    def empty_like(self, proto, dtype=None, **k):
        r = self._like(proto, dtype, 0)
        if r is not None:
            return r
        if is_symarr(proto):
            return _np.zeros(proto.shape, dtype=dtype)
        return _np.empty_like(proto, dtype=dtype, **k)

    def full_like(self, proto, fill_value, dtype=None, **k):
        if ENGINE.active and (isinstance(fill_value, Sym) or is_symarr(proto)):
            return _obj_filled(_np.shape(proto), fill_value)
        return _np.full_like(proto, fill_value, dtype=dtype, **k)

    def _conv(self, f, o, dtype, k):
        if has_sym(o):
            a = f(o, dtype=object, **{kk: vv for kk, vv in k.items() if kk in ("copy", "ndmin", "order")}) if f is _np.array else f(o, dtype=object)
            if dtype is not None:
                kind = _norm_dtype(dtype)
                if kind in ("f", "i", "b"):
                    a2 = sx_astype(a, dtype)
                    if isinstance(o, _np.ndarray) and a2 is not a and type(o) is not _np.ndarray:
                        pass
                    return a2
            return a
        return f(o, dtype=dtype, **k) if dtype is not None else f(o, **k)

    def array(self, o, dtype=None, **k):
        return self._conv(_np.array, o, dtype, k)

    def asarray(self, o, dtype=None, **k):
        if isinstance(o, _np.ndarray) and o.dtype == object and (dtype is None or _norm_dtype(dtype) == "f" and logical_dtype(o).kind == "f"):
            return o if type(o) is _np.ndarray else o.view(_np.ndarray)
        return self._conv(_np.asarray, o, dtype, k)

    def ascontiguousarray(self, o, dtype=None):
        if has_sym(o):
            return self.asarray(o, dtype)
        return _np.ascontiguousarray(o, dtype=dtype)

    float64 = _F64

    # --- elementwise
    def floor(self, x, *a, **k):
        return _vec(_e_floor)(x) if has_sym(x) else _np.floor(x, *a, **k)

    def ceil(self, x, *a, **k):
        return _vec(_e_ceil)(x) if has_sym(x) else _np.ceil(x, *a, **k)

    def round(self, x, decimals=0, *a, **k):
        if has_sym(x):
            if decimals != 0:
                raise Unsupported("round decimals")
            return _vec(_e_rint)(x)
        return _np.round(x, decimals, *a, **k)

    around = round
    round_ = round

    def rint(self, x, *a, **k):
        return _vec(_e_rint)(x) if has_sym(x) else _np.rint(x, *a, **k)

    def trunc(self, x, *a, **k):
        if has_sym(x):
            return _vec(lambda e: SymReal(rterm(e.__trunc__())) if isinstance(e, Sym) else float(_math.trunc(e)))(x)
        return _np.trunc(x, *a, **k)

    def absolute(self, x, *a, **k):
        return _vec(_e_abs)(x) if has_sym(x) else _np.absolute(x, *a, **k)

    abs = absolute
    fabs = absolute

    def sign(self, x, *a, **k):
        return _vec(_e_sign)(x) if has_sym(x) else _np.sign(x, *a, **k)

    def sqrt(self, x, *a, **k):
        if has_sym(x):
            return _vec(_e_sqrt)(x)
        if ENGINE.active and ENGINE.exact_literals and isinstance(x, (int, float)):
            return SymReal(rat(Fraction(x))).sqrt()
        return _np.sqrt(x, *a, **k)

    def square(self, x, *a, **k):
        return x * x if has_sym(x) else _np.square(x, *a, **k)

    def power(self, x, p, *a, **k):
        if has_sym(x) or has_sym(p):
            return _vec(lambda e, q: e**q, 2)(x, p)
        return _np.power(x, p, *a, **k)

    def divide(self, a, b, *r, **k):
        if ENGINE.active and not r and not k:
            aa, bb = _np.asarray(a), _np.asarray(b)
            if aa.dtype.kind in "iu" and bb.dtype.kind in "iu" and bb.all():
                f = _np.frompyfunc(lambda x, y: sx_div(int(x), int(y)) if x % y else float(x // y), 2, 1)
                res = f(aa, bb)
                return demote(res) if isinstance(res, _np.ndarray) else res
        return _np.divide(a, b, *r, **k)

    true_divide = divide

    def exp(self, x, *a, **k):
        if has_sym(x):
            hook = getattr(ENGINE, "exp_hook", None)
            if hook is None:
                raise Unsupported("np.exp on symbolic data without stub")
            return _vec(lambda e: hook(e))(x)
        return _np.exp(x, *a, **k)

    def maximum(self, a, b, *r, **k):
        return _vec(_e_max, 2)(a, b) if (has_sym(a) or has_sym(b)) else _np.maximum(a, b, *r, **k)

    def minimum(self, a, b, *r, **k):
        return _vec(_e_min, 2)(a, b) if (has_sym(a) or has_sym(b)) else _np.minimum(a, b, *r, **k)

    fmax = maximum
    fmin = minimum

    def clip(self, a, a_min=None, a_max=None, out=None, **k):
        if has_sym(a) or has_sym(a_min) or has_sym(a_max):
            r = a
            if a_min is not None:
                r = self.maximum(r, a_min)
            if a_max is not None:
                r = self.minimum(r, a_max)
            if out is not None:
                out[...] = r
                return out
            return r
        return _np.clip(a, a_min, a_max, out=out, **k)

    def logical_and(self, a, b, *r, **k):
        if has_sym(a) or has_sym(b):
            res = _vec(_e_and, 2)(a, b)
            return demote(res) if isinstance(res, _np.ndarray) else res
        return _np.logical_and(a, b, *r, **k)

    def logical_or(self, a, b, *r, **k):
        if has_sym(a) or has_sym(b):
            res = _vec(_e_or, 2)(a, b)
            return demote(res) if isinstance(res, _np.ndarray) else res
        return _np.logical_or(a, b, *r, **k)

    def logical_not(self, a, *r, **k):
        if has_sym(a):
            res = _vec(_e_not)(a)
            return demote(res) if isinstance(res, _np.ndarray) else res
        return _np.logical_not(a, *r, **k)

    def isnan(self, x, *a, **k):
        if has_sym(x):
            r = _vec(lambda e: False if isinstance(e, Sym) else bool(_np.isnan(e)))(x)
            return demote(r) if isinstance(r, _np.ndarray) else r
        return _np.isnan(x, *a, **k)

    def isinf(self, x, *a, **k):
        if has_sym(x):
            r = _vec(lambda e: False if isinstance(e, Sym) else bool(_np.isinf(e)))(x)
            return demote(r) if isinstance(r, _np.ndarray) else r
        return _np.isinf(x, *a, **k)

    def isfinite(self, x, *a, **k):
        if has_sym(x):
            r = _vec(lambda e: True if isinstance(e, Sym) else bool(_np.isfinite(e)))(x)
            return demote(r) if isinstance(r, _np.ndarray) else r
        return _np.isfinite(x, *a, **k)

    def isclose(self, a, b, rtol=1e-05, atol=1e-08, equal_nan=False):
        if has_sym(a) or has_sym(b):
            def f(x, y):
                if not isinstance(x, Sym) and not isinstance(y, Sym):
                    return bool(_np.isclose(float(x), float(y), rtol=rtol, atol=atol))
                tx, ty = rterm(x), rterm(y)
                d = tx - ty
                ay = z3.If(ty >= 0, ty, -ty)
                bound = rat(atol) + rat(rtol) * ay
                return SymBool(z3.And(d <= bound, -d <= bound))
            r = _vec(f, 2)(a, b)
            return demote(r) if isinstance(r, _np.ndarray) else r
        return _np.isclose(a, b, rtol=rtol, atol=atol, equal_nan=equal_nan)

    def allclose(self, a, b, rtol=1e-05, atol=1e-08, equal_nan=False):
        if has_sym(a) or has_sym(b):
            return self.all(self.isclose(a, b, rtol, atol))
        return _np.allclose(a, b, rtol=rtol, atol=atol, equal_nan=equal_nan)

    def array_equal(self, a, b, **k):
        if has_sym(a) or has_sym(b):
            a = _np.asarray(a, dtype=object) if not isinstance(a, _np.ndarray) else a
            b = _np.asarray(b, dtype=object) if not isinstance(b, _np.ndarray) else b
            if a.shape != b.shape:
                return False
            return self.all(sx_cmp("eq", a, b))
        return _np.array_equal(a, b, **k)

    def all(self, a, axis=None, **k):
        if has_sym(a):
            a = _np.asarray(a, dtype=object)
            if axis is None:
                ts = [tobool(e) for e in a.ravel()]
                r = z3.simplify(z3.And(*ts)) if ts else z3.BoolVal(True)
                return True if z3.is_true(r) else (False if z3.is_false(r) else SymBool(r))
            xs = _np.moveaxis(a, axis, -1)
            out = _np.empty(xs.shape[:-1], dtype=object)
            for idx in _np.ndindex(*xs.shape[:-1]):
                out[idx] = self.all(xs[idx])
            return demote(out)
        return _np.all(a, axis=axis, **k)

    def any(self, a, axis=None, **k):
        if has_sym(a):
            a = _np.asarray(a, dtype=object)
            if axis is None:
                ts = [tobool(e) for e in a.ravel()]
                r = z3.simplify(z3.Or(*ts)) if ts else z3.BoolVal(False)
                return True if z3.is_true(r) else (False if z3.is_false(r) else SymBool(r))
            xs = _np.moveaxis(a, axis, -1)
            out = _np.empty(xs.shape[:-1], dtype=object)
            for idx in _np.ndindex(*xs.shape[:-1]):
                out[idx] = self.any(xs[idx])
            return demote(out)
        return _np.any(a, axis=axis, **k)

    def where(self, c, *ab):
        if not ab:
            if really_sym(c):
                raise Unsupported("np.where(cond) with symbolic condition")
            return _np.where(demote(c) if isinstance(c, _np.ndarray) else c)
        a, b = ab
        if has_sym(c) or has_sym(a) or has_sym(b):
            if not really_sym(c):
                cc = demote(c) if isinstance(c, _np.ndarray) else c
                A = _np.asarray(a, dtype=object) if not isinstance(a, _np.ndarray) else (a if a.dtype == object else obj(a))
                B = _np.asarray(b, dtype=object) if not isinstance(b, _np.ndarray) else (b if b.dtype == object else obj(b))
                return _np.where(cc, A, B)
            return _vec(_ite, 3)(c, a, b)
        return _np.where(c, a, b)

    def _reduce(self, f2, a, axis, keepdims=False):
        a = _np.asarray(a, dtype=object)
        if axis is None:
            flat = a.ravel()
            r = flat[0]
            for e in flat[1:]:
                r = f2(r, e)
            return r
        xs = _np.moveaxis(a, axis, -1)
        out = _np.empty(xs.shape[:-1], dtype=object)
        for idx in _np.ndindex(*xs.shape[:-1]):
            r = xs[idx][0]
            for e in xs[idx][1:]:
                r = f2(r, e)
            out[idx] = r
        if keepdims:
            out = _np.expand_dims(out, axis)
        return out

    def max(self, a, axis=None, keepdims=False, **k):
        if has_sym(a):
            return self._reduce(_e_max, a, axis, keepdims)
        return _np.max(a, axis=axis, keepdims=keepdims, **k)

    amax = max

    def min(self, a, axis=None, keepdims=False, **k):
        if has_sym(a):
            return self._reduce(_e_min, a, axis, keepdims)
        return _np.min(a, axis=axis, keepdims=keepdims, **k)

    amin = min

    def argmax(self, a, axis=None, **k):
        if really_sym(a):
            raise Unsupported("argmax on symbolic data")
        return _np.argmax(demote(a) if isinstance(a, _np.ndarray) else a, axis=axis, **k)

    def argmin(self, a, axis=None, **k):
        if really_sym(a):
            raise Unsupported("argmin on symbolic data")
        return _np.argmin(demote(a) if isinstance(a, _np.ndarray) else a, axis=axis, **k)

    def unique(self, a, *r, **k):
        if really_sym(a):
            raise Unsupported("unique on symbolic data")
        return _np.unique(demote(a) if isinstance(a, _np.ndarray) else a, *r, **k)

    def count_nonzero(self, a, *r, **k):
        if really_sym(a):
            if r or k:
                raise Unsupported("count_nonzero axis")
            s = 0
            for e in _np.asarray(a, dtype=object).ravel():
                s = s + (SymInt(z3.If(tobool(e), 1, 0)) if isinstance(e, Sym) else int(bool(e)))
            return s
        return _np.count_nonzero(demote(a) if isinstance(a, _np.ndarray) else a, *r, **k)

    def nonzero(self, a):
        if really_sym(a):
            raise Unsupported("nonzero on symbolic data")
        return _np.nonzero(demote(a) if isinstance(a, _np.ndarray) else a)

    def argwhere(self, a):
        if really_sym(a):
            raise Unsupported("argwhere on symbolic data")
        return _np.argwhere(demote(a) if isinstance(a, _np.ndarray) else a)

    def isscalar(self, x):
        return True if isinstance(x, Sym) else _np.isscalar(x)

    def ndim(self, x):
        return 0 if isinstance(x, Sym) else _np.ndim(x)

    def sum(self, a, axis=None, **k):
        if has_sym(a) and not isinstance(a, _np.ndarray):
            a = _np.asarray(a, dtype=object)
        if is_symarr(a) and a.size == 0:
            return _np.sum(a.astype(float), axis=axis, **k)
        if is_symarr(a) and logical_dtype(a).kind == "b":
            a = _vec(lambda e: SymInt(z3.If(tobool(e), 1, 0)) if isinstance(e, Sym) else int(e))(a)
        return _np.sum(a, axis=axis, **k)

    def sort(self, a, *r, **k):
        if really_sym(a):
            raise Unsupported("sort on symbolic data")
        return _np.sort(demote(a) if isinstance(a, _np.ndarray) else a, *r, **k)

    def argsort(self, a, *r, **k):
        if really_sym(a):
            raise Unsupported("argsort on symbolic data")
        return _np.argsort(demote(a) if isinstance(a, _np.ndarray) else a, *r, **k)

    def linspace(self, start, stop, num=50, **k):
        if has_sym(start) or has_sym(stop):
            n = int(num)
            if n == 1:
                return _np.array([start], dtype=object)
            return _np.array([start + (stop - start) * i / (n - 1) for i in range(n)], dtype=object)
        return _np.linspace(start, stop, num, **k)

    def interp(self, *a, **k):
        if any(really_sym(x) for x in a):
            raise Unsupported("np.interp on symbolic data")
        return _np.interp(*a, **k)


NP = NumpyProxy()


class MathProxy:
    def __getattr__(self, name):
        return getattr(_math, name)

    def sqrt(self, x):
        return x.sqrt() if isinstance(x, Sym) else _math.sqrt(x)

    def floor(self, x):
        return x.__floor__() if isinstance(x, Sym) else _math.floor(x)

    def ceil(self, x):
        return x.__ceil__() if isinstance(x, Sym) else _math.ceil(x)

    def isclose(self, a, b, rel_tol=1e-09, abs_tol=0.0):
        if isinstance(a, Sym) or isinstance(b, Sym):
            return NP.isclose(a, b, rtol=rel_tol, atol=abs_tol)
        return _math.isclose(a, b, rel_tol=rel_tol, abs_tol=abs_tol)

    def prod(self, it, start=1):
        r = start
        for e in it:
            r = r * e
        return r


MATH = MathProxy()
