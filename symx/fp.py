"""symx-fp: IEEE-754 binary64 scalars for the two bit-precise lemmas (C01 floor, C19 ceil).

SymFP wraps a z3 FloatingPoint term (Float64, round-to-nearest-even for + - * /).  The real
DarSIA functions are executed on these scalars through the same instrumented import, so the
kernel term follows the source.  Queries are written as SMT-LIB and decided by the cvc5 binary
(z3 as fallback): see runner._fp_query.
"""
from __future__ import annotations

import math
import struct

import numpy as _np
import z3

from .core import ENGINE, Sym, SymBool, Unsupported

F64 = z3.Float64()
RNE = z3.RNE()


def fpval(v):
    if isinstance(v, SymFP):
        return v.t
    if isinstance(v, Sym):
        s = z3.simplify(v.t)
        if z3.is_int_value(s):
            return z3.FPVal(float(s.as_long()), F64)
        if z3.is_rational_value(s):
            return z3.FPVal(float(s.numerator_as_long()) / float(s.denominator_as_long()), F64)
        raise Unsupported("mixing exact-real and floating-point symbols")
    if isinstance(v, (bool, _np.bool_)):
        return z3.FPVal(float(v), F64)
    if isinstance(v, (int, float, _np.integer, _np.floating)):
        return z3.FPVal(float(v), F64)
    raise Unsupported(f"fp constant of type {type(v)}")


class SymFP(Sym):
    __slots__ = ()

    def _bin(self, o, f, r=False, res=None):
        if isinstance(o, _np.ndarray):
            if o.ndim == 0:
                o = o.item()
            else:
                return _np.frompyfunc(lambda e: self._bin(e, f, r, res), 1, 1)(o)
        a, b = (o, self) if r else (self, o)
        return SymFP(f(fpval(a), fpval(b)))

    def __add__(s, o):
        return s._bin(o, lambda a, b: z3.fpAdd(RNE, a, b))

    def __radd__(s, o):
        return s._bin(o, lambda a, b: z3.fpAdd(RNE, a, b), True)

    def __sub__(s, o):
        return s._bin(o, lambda a, b: z3.fpSub(RNE, a, b))

    def __rsub__(s, o):
        return s._bin(o, lambda a, b: z3.fpSub(RNE, a, b), True)

    def __mul__(s, o):
        return s._bin(o, lambda a, b: z3.fpMul(RNE, a, b))

    def __rmul__(s, o):
        return s._bin(o, lambda a, b: z3.fpMul(RNE, a, b), True)

    def __truediv__(s, o):
        return s._bin(o, lambda a, b: z3.fpDiv(RNE, a, b))

    def __rtruediv__(s, o):
        return s._bin(o, lambda a, b: z3.fpDiv(RNE, a, b), True)

    def __neg__(s):
        return SymFP(z3.fpNeg(s.t))

    def __pos__(s):
        return s

    def __abs__(s):
        return SymFP(z3.fpAbs(s.t))

    def _cmp(self, o, f):
        if isinstance(o, _np.ndarray):
            if o.ndim == 0:
                o = o.item()
            else:
                return _np.frompyfunc(lambda e: self._cmp(e, f), 1, 1)(o)
        return SymBool(f(self.t, fpval(o)))

    def __lt__(s, o):
        return s._cmp(o, z3.fpLT)

    def __le__(s, o):
        return s._cmp(o, z3.fpLEQ)

    def __gt__(s, o):
        return s._cmp(o, z3.fpGT)

    def __ge__(s, o):
        return s._cmp(o, z3.fpGEQ)

    def __eq__(s, o):
        return s._cmp(o, z3.fpEQ)

    def __ne__(s, o):
        return s._cmp(o, lambda a, b: z3.Not(z3.fpEQ(a, b)))

    __hash__ = Sym.__hash__

    def __bool__(s):
        return ENGINE.branch(z3.Not(z3.fpIsZero(s.t)))

    # rounding to integral values stays in floating point (as numpy's floor/ceil/round do)
    def floor_real(s):
        return SymFP(z3.fpRoundToIntegral(z3.RTN(), s.t))

    def ceil_real(s):
        return SymFP(z3.fpRoundToIntegral(z3.RTP(), s.t))

    def rint(s):
        return SymFP(z3.fpRoundToIntegral(z3.RNE(), s.t))

    def __floor__(s):
        return s.floor_real()

    def __ceil__(s):
        return s.ceil_real()

    def __trunc__(s):
        return SymFP(z3.fpRoundToIntegral(z3.RTZ(), s.t))

    def __round__(s, n=None):
        return s.rint()

    def __int__(s):
        raise Unsupported("int() of a floating-point symbol")

    def __index__(s):
        raise TypeError("'float' object cannot be interpreted as an integer")

    def __float__(s):
        v = z3.simplify(s.t)
        if z3.is_fp_value(v):
            return float(v.as_string()) if False else _fpvalue_to_float(v)
        raise Unsupported("float() of a floating-point symbol")

    def sqrt(s):
        return SymFP(z3.fpSqrt(RNE, s.t))

    def __pow__(s, o):
        if isinstance(o, (int, _np.integer)) and o >= 0:
            r = SymFP(z3.FPVal(1.0, F64))
            for _ in range(int(o)):
                r = r * s
            return r
        raise Unsupported("fp pow")


def _fpvalue_to_float(v):
    sign = 1 if v.sign() else 0
    e = v.exponent_as_long(biased=True)
    m = v.significand_as_long()
    bits = (sign << 63) | (e << 52) | m
    return struct.unpack("<d", struct.pack("<Q", bits))[0]


def var(name):
    return SymFP(z3.FP(name, F64))


def const(v):
    return SymFP(z3.FPVal(float(v), F64))


def float_to_hex(x):
    return float(x).hex()


# ---------------------------------------------------------------- SMT-LIB model parsing (cvc5)


def parse_cvc5_model(text):
    """{name: python float} from a cvc5 (get-model) answer for Float64 constants"""
    import re

    out = {}
    for m in re.finditer(r"\(define-fun\s+(\S+)\s+\(\)\s+\(_ FloatingPoint 11 53\)\s+(\(fp #b([01]) #b([01]{11}) #b([01]{52})\)|\(_ ([+-])zero 11 53\)|\(_ ([+-])oo 11 53\)|\(_ NaN 11 53\))", text):
        name = m.group(1).strip("|")
        if m.group(3) is not None:
            bits = int(m.group(3) + m.group(4) + m.group(5), 2)
            out[name] = struct.unpack("<d", struct.pack("<Q", bits))[0]
        elif m.group(6) is not None:
            out[name] = 0.0 if m.group(6) == "+" else -0.0
        elif m.group(7) is not None:
            out[name] = math.inf if m.group(7) == "+" else -math.inf
        else:
            out[name] = math.nan
    return out
