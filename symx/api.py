"""Harness API.  One harness body runs in three modes:

  sym    instrumented import, inputs are z3 variables, claims are z3 formulas (decided by the solver)
  const  instrumented import, inputs are symbolic *constants* (translator validation)
  plain  ordinary `import darsia`, inputs are python floats (replay of counterexamples and
         the reference side of translator validation)
"""
from __future__ import annotations

import math
import random
from fractions import Fraction

import numpy as np


class AssumeFailed(Exception):
    pass


class HarnessSkip(Exception):
    """configuration not applicable in this mode"""


RTOL = 1e-9


class _State:
    def __init__(self):
        self.mode = "plain"
        self.values = {}
        self.rng = random.Random(0)
        self.claims = []  # (name, cond)
        self.observed = {}
        self.vars = {}  # name -> kind
        self.drawn = {}
        self.assumed_plain = []
        self.ufs = {}
        self.hints = []
        self.rtol = RTOL


ST = _State()


def _core():
    from . import core

    return core


def _z3():
    import z3

    return z3


def reset(mode, values=None, seed=0):
    ST.mode = mode
    ST.values = dict(values or {})
    ST.rng = random.Random(seed)
    ST.claims = []
    ST.observed = {}
    ST.vars = {}
    ST.drawn = {}
    ST.ufs = {}
    ST.hints = []
    ST.rtol = RTOL


def mode():
    return ST.mode


def symbolic():
    return ST.mode == "sym"


def instrumented():
    return ST.mode in ("sym", "const")


def _parse_value(v):
    if isinstance(v, str):
        if "/" in v:
            return Fraction(v)
        if v in ("True", "False"):
            return v == "True"
        try:
            return Fraction(v)
        except Exception:
            return float(v)
    return v


def _draw_real(lo, hi, default):
    if default is not None:
        return default(ST.rng) if callable(default) else default
    lo = float(Fraction(lo)) if isinstance(lo, str) else lo
    hi = float(Fraction(hi)) if isinstance(hi, str) else hi
    lo = -2.0 if lo is None else lo
    hi = (lo + 4.0) if hi is None else hi
    if lo > 0 and hi / lo > 100:
        x = math.exp(ST.rng.uniform(math.log(lo), math.log(hi)))
    else:
        x = ST.rng.uniform(lo, hi)
    # dyadic rounding keeps float replay exact where possible
    q = 64
    y = round(x * q) / q
    if (lo is not None and y < lo) or (hi is not None and y > hi) or y == 0:
        y = x
    return y


def real(name, lo=None, hi=None, pos=False, default=None, strict=True):
    """real-valued input variable.  lo/hi: closed bounds (assumed in sym mode)"""
    if pos and lo is None:
        lo = None
    ST.vars[name] = "real"
    if ST.mode == "sym":
        c = _core()
        z3 = _z3()
        x = c.real(name)
        if lo is not None:
            c.ENGINE.add(x.t >= c.rat(lo))
        if hi is not None:
            c.ENGINE.add(x.t <= c.rat(hi))
        if pos:
            c.ENGINE.add(x.t > 0)
        return x
    if name in ST.values:
        v = _parse_value(ST.values[name])
    elif name in ST.drawn:
        v = ST.drawn[name]
    else:
        l2 = lo
        if pos and (l2 is None or l2 <= 0):
            l2 = 0.25
            v = _draw_real(l2, hi if hi is not None else 4.0, default)
        else:
            v = _draw_real(l2, hi, default)
        ST.drawn[name] = v
    if ST.mode == "const":
        return _core().const_real(v)
    return float(v)


def fp(name, lo, hi, default=None):
    """IEEE double input variable in [lo, hi] (finite); default(rng) = the seeded draw of the reference runs"""
    ST.vars[name] = "fp"
    if ST.mode == "sym":
        from . import fp as F
        import z3

        x = F.var(name)
        c = _core()
        c.ENGINE.add(z3.And(z3.fpLEQ(z3.FPVal(float(lo), F.F64), x.t), z3.fpLEQ(x.t, z3.FPVal(float(hi), F.F64))))
        return x
    if name in ST.values:
        v = ST.values[name]
        v = float.fromhex(v) if isinstance(v, str) and "0x" in v else float(_parse_value(v))
    elif name in ST.drawn:
        v = ST.drawn[name]
    else:
        if default is not None:
            v = float(default(ST.rng))
        elif lo > 0 and hi / lo > 100:
            v = math.exp(ST.rng.uniform(math.log(lo), math.log(hi)))
        else:
            v = ST.rng.uniform(lo, hi)
        ST.drawn[name] = v
    if ST.mode == "const":
        from . import fp as F

        return F.const(v)
    return float(v)


def integer(name, lo, hi, default=None):
    ST.vars[name] = "int"
    if ST.mode == "sym":
        c = _core()
        x = c.integer(name)
        c.ENGINE.add(x.t >= lo)
        c.ENGINE.add(x.t <= hi)
        return x
    if name in ST.values:
        v = int(_parse_value(ST.values[name]))
    elif name in ST.drawn:
        v = ST.drawn[name]
    else:
        v = (default(ST.rng) if callable(default) else default) if default is not None else ST.rng.randint(lo, hi)
        ST.drawn[name] = v
    if ST.mode == "const":
        return _core().const_int(v)
    return int(v)


def boolean(name, default=None):
    ST.vars[name] = "bool"
    if ST.mode == "sym":
        return _core().boolean(name)
    if name in ST.values:
        v = _parse_value(ST.values[name])
        v = bool(v)
    elif name in ST.drawn:
        v = ST.drawn[name]
    else:
        v = default if default is not None else bool(ST.rng.getrandbits(1))
        ST.drawn[name] = v
    if ST.mode == "const":
        return _core().const_bool(v)
    return v


def array(name, shape, lo=None, hi=None, pos=False, kind="real"):
    """object array (sym/const) or float array (plain) of fresh input variables"""
    shape = tuple(shape) if not isinstance(shape, (int, np.integer)) else (int(shape),)
    n = int(np.prod(shape)) if shape else 1
    if kind == "real":
        elems = [real(f"{name}_{i}", lo, hi, pos) for i in range(n)]
    elif kind == "int":
        elems = [integer(f"{name}_{i}", lo, hi) for i in range(n)]
    else:
        raise ValueError(kind)
    if ST.mode == "plain":
        return np.array(elems, dtype=float if kind == "real" else int).reshape(shape)
    a = np.empty(n, dtype=object)
    for i, e in enumerate(elems):
        a[i] = e
    return a.reshape(shape)


def const(v):
    """a constant that should travel as exact rational in instrumented modes"""
    if instrumented():
        return _core().const_real(v)
    return float(Fraction(v)) if isinstance(v, str) else float(v)


def fresh(prefix, n=None, hint=None):
    """fresh symbolic reals (sym mode only) -- for contract stubs.
    hint: a value used ONLY when searching a witness that the path condition is satisfiable
    (e.g. 1 for an arbitrary positive weight, which makes the remaining constraints linear)"""
    assert ST.mode == "sym"
    c = _core()
    z3 = _z3()
    if n is None:
        v = z3.FreshReal(prefix)
        if hint is not None:
            ST.hints.append(v == c.rat(hint))
        return c.SymReal(v)
    a = np.empty(n, dtype=object)
    for i in range(n):
        v = z3.FreshReal(prefix)
        if hint is not None:
            ST.hints.append(v == c.rat(hint))
        a[i] = c.SymReal(v)
    return a


def assume(cond, check=True):
    if ST.mode == "sym":
        c = _core()
        if check:
            c.ENGINE.assume(cond)
        else:
            c.ENGINE.add(cond.t if isinstance(cond, c.Sym) else cond)
        return
    if not truth(cond):
        raise AssumeFailed()


def add_constraint(cond):
    assume(cond, check=False)


# ---------------------------------------------------------------- values & comparisons


def tofloat(x):
    """numeric value of a python number or constant Sym"""
    if instrumented():
        c = _core()
        from . import fp as F

        if isinstance(x, F.SymFP):
            return float(x)
        if isinstance(x, c.Sym):
            v = c.value_of(x)
            if v is None:
                raise ValueError(f"not a constant: {x}")
            return float(v) if not isinstance(v, bool) else v
    if isinstance(x, (bool, np.bool_)):
        return bool(x)
    return float(x)


def truth(cond):
    """python truth value of a condition in const/plain mode"""
    if instrumented():
        c = _core()
        z3 = _z3()
        if isinstance(cond, c.Sym):
            cond = cond.t
        if isinstance(cond, z3.ExprRef):
            s = z3.simplify(cond)
            if z3.is_true(s):
                return True
            if z3.is_false(s):
                return False
            raise ValueError(f"condition did not simplify to a constant: {str(s)[:200]}")
    if isinstance(cond, np.ndarray):
        return bool(np.all(cond))
    return bool(cond)


def _flat(x):
    if isinstance(x, np.ndarray):
        return list(x.ravel())
    if isinstance(x, (list, tuple)):
        out = []
        for e in x:
            out.extend(_flat(e))
        return out
    return [x]


def _shape(x):
    if isinstance(x, np.ndarray):
        return x.shape
    if isinstance(x, (list, tuple)):
        return np.shape(np.asarray(x, dtype=object))
    return ()


def set_rtol(r):
    """relative tolerance of the float comparisons in const / plain mode (default 1e-9)"""
    ST.rtol = r


def _num_close(a, b, rtol=None):
    rtol = ST.rtol if rtol is None else rtol
    a = tofloat(a)
    b = tofloat(b)
    if isinstance(a, bool) or isinstance(b, bool):
        return bool(a) == bool(b)
    if math.isnan(a) or math.isnan(b):
        return False
    return abs(a - b) <= rtol * max(1.0, abs(a), abs(b))


def eq(a, b, rtol=None):
    """a == b (element-wise for arrays; shapes must agree)"""
    if _shape(a) != _shape(b):
        if _shape(a) != () and _shape(b) != ():
            return false()
    fa, fb = _flat(a), _flat(b)
    if len(fa) != len(fb):
        if len(fb) == 1:
            fb = fb * len(fa)
        elif len(fa) == 1:
            fa = fa * len(fb)
        else:
            return false()
    if ST.mode == "sym":
        c = _core()
        z3 = _z3()
        parts = []
        from . import fp as F

        for x, y in zip(fa, fb):
            if isinstance(x, F.SymFP) or isinstance(y, F.SymFP):
                parts.append(z3.fpEQ(F.fpval(x), F.fpval(y)))
                continue
            tx, ty = c.term(x), c.term(y)
            if z3.is_bool(tx) or z3.is_bool(ty):
                parts.append(c.tobool(x) == c.tobool(y))
            else:
                tx, ty = c._arith(x, y)
                parts.append(tx == ty)
        return c.SymBool(z3.And(*parts)) if parts else c.SymBool(z3.BoolVal(True))
    return all(_num_close(x, y, rtol) for x, y in zip(fa, fb))


def le(a, b, slack=0.0):
    """a <= b (element-wise)"""
    fa, fb = _flat(a), _flat(b)
    if len(fb) == 1:
        fb = fb * len(fa)
    if len(fa) == 1:
        fa = fa * len(fb)
    if ST.mode == "sym":
        c = _core()
        z3 = _z3()
        parts = []
        from . import fp as F

        for x, y in zip(fa, fb):
            if isinstance(x, F.SymFP) or isinstance(y, F.SymFP):
                parts.append(z3.fpLEQ(F.fpval(x), F.fpval(y)))
                continue
            tx, ty = c._arith(x, y)
            parts.append(tx <= ty)
        return c.SymBool(z3.And(*parts)) if parts else c.SymBool(z3.BoolVal(True))
    return all(tofloat(x) <= tofloat(y) + RTOL * max(1.0, abs(tofloat(x)), abs(tofloat(y))) for x, y in zip(fa, fb))


def lt(a, b):
    fa, fb = _flat(a), _flat(b)
    if len(fb) == 1:
        fb = fb * len(fa)
    if len(fa) == 1:
        fa = fa * len(fb)
    if ST.mode == "sym":
        c = _core()
        z3 = _z3()
        parts = []
        for x, y in zip(fa, fb):
            tx, ty = c._arith(x, y)
            parts.append(tx < ty)
        return c.SymBool(z3.And(*parts)) if parts else c.SymBool(z3.BoolVal(True))
    return all(tofloat(x) < tofloat(y) for x, y in zip(fa, fb))


def true():
    if ST.mode == "sym":
        return _core().SymBool(_z3().BoolVal(True))
    return True


def false():
    if ST.mode == "sym":
        return _core().SymBool(_z3().BoolVal(False))
    return False


def _b(x):
    if ST.mode == "sym":
        c = _core()
        z3 = _z3()
        if isinstance(x, c.Sym):
            return c.tobool(x)
        if isinstance(x, z3.ExprRef):
            return x
        if isinstance(x, np.ndarray):
            return z3.And(*[_b(e) for e in x.ravel()]) if x.size else z3.BoolVal(True)
        return z3.BoolVal(bool(x))
    return truth(x)


def and_(*xs):
    if len(xs) == 1 and isinstance(xs[0], (list, tuple)):
        xs = xs[0]
    if ST.mode == "sym":
        z3 = _z3()
        return _core().SymBool(z3.And(*[_b(x) for x in xs]) if xs else z3.BoolVal(True))
    return all(_b(x) for x in xs)


def or_(*xs):
    if len(xs) == 1 and isinstance(xs[0], (list, tuple)):
        xs = xs[0]
    if ST.mode == "sym":
        z3 = _z3()
        return _core().SymBool(z3.Or(*[_b(x) for x in xs]) if xs else z3.BoolVal(False))
    return any(_b(x) for x in xs)


def not_(x):
    if ST.mode == "sym":
        return _core().SymBool(_z3().Not(_b(x)))
    return not _b(x)


def implies(a, b):
    if ST.mode == "sym":
        return _core().SymBool(_z3().Implies(_b(a), _b(b)))
    return (not _b(a)) or _b(b)


def iff(a, b):
    if ST.mode == "sym":
        return _core().SymBool(_b(a) == _b(b))
    return _b(a) == _b(b)


def ite(c, a, b):
    if instrumented():
        from . import npx

        return npx._ite(c if isinstance(c, _core().Sym) else bool(c), a, b)
    return a if c else b


def abs_(x):
    return abs(x)


def max_(a, b):
    if instrumented():
        from . import npx

        return npx._e_max(a, b)
    return max(a, b)


def min_(a, b):
    if instrumented():
        from . import npx

        return npx._e_min(a, b)
    return min(a, b)


def floor(x):
    """mathematical floor as integer-valued number"""
    if instrumented() and isinstance(x, _core().Sym):
        return x.__floor__()
    return math.floor(x)


def ceil(x):
    if instrumented() and isinstance(x, _core().Sym):
        return x.__ceil__()
    return math.ceil(x)


def claim(name, cond):
    """register a claim: cond must hold for every input on this path"""
    if ST.mode == "sym":
        ST.claims.append((name, _b(cond)))
    else:
        ST.claims.append((name, bool(_b(cond))))


def observe(name, value):
    """numeric observable compared between const and plain mode (translator validation)"""
    if ST.mode == "sym":
        return
    try:
        if isinstance(value, (np.ndarray, list, tuple)):
            ST.observed[name] = [tofloat(v) for v in _flat(value)]
        elif isinstance(value, (str, type(None))):
            ST.observed[name] = value
        else:
            ST.observed[name] = tofloat(value)
    except ValueError as e:
        ST.observed[name] = f"<non-constant: {e}>"


# ---------------------------------------------------------------- uninterpreted functions


def _generic_fn(name, arity):
    r = random.Random(hash_name(name))
    coef = [r.uniform(0.5, 1.5) for _ in range(arity)]
    c0 = r.uniform(0.1, 0.9)
    c2 = [r.uniform(0.05, 0.2) for _ in range(arity)]

    def f(*xs):
        return c0 + sum(c * x for c, x in zip(coef, xs)) + sum(c * x * x for c, x in zip(c2, xs))

    return f


def hash_name(name):
    h = 0
    for ch in name:
        h = (h * 131 + ord(ch)) % (2**31)
    return h


def uf(name, arity=1):
    """uninterpreted function R^arity -> R.  sym: z3 UF; const/plain: a fixed generic
    non-linear function (so that order / omission of stages changes the value)"""
    ST.ufs[name] = arity
    if ST.mode == "sym":
        z3 = _z3()
        c = _core()
        F = z3.Function(name, *([z3.RealSort()] * arity), z3.RealSort())

        def f(*xs):
            return c.SymReal(F(*[z3.simplify(c.rterm(x)) for x in xs]))

        return f
    g = _generic_fn(name, arity)
    table = ST.values.get("uf:" + name)
    if isinstance(table, dict):
        # replay: the solver's own interpretation of the function (finite table + else value)
        ents = [([float(Fraction(a)) for a in args], float(Fraction(val))) for args, val in table["entries"]]
        els = float(Fraction(table["els"]))

        def g(*xs):  # noqa: F811
            xs = [float(x) for x in xs]
            for args, val in ents:
                if all(abs(a - x) <= 1e-9 * max(1.0, abs(a), abs(x)) for a, x in zip(args, xs)):
                    return val
            return els

    if ST.mode == "const":
        c = _core()

        def f(*xs):
            return c.const_real(g(*[tofloat(x) for x in xs]))

        return f
    return g


def elementwise(f, nin=1):
    uf_ = np.frompyfunc(f, nin, 1)

    def g(*arrs):
        r = uf_(*arrs)
        if ST.mode == "plain" and isinstance(r, np.ndarray):
            return r.astype(float)
        return r

    return g


# ---------------------------------------------------------------- contract stubs


def solve_contract(A, b, name="x"):
    """result of an exact linear solve A x = b.
    sym: fresh vector constrained by A x = b (no feasibility query; vacuity is checked per path)
    const: numpy solve on the float values, wrapped as constants
    plain: not used (the real back-end runs)"""
    from . import sparse

    c = _core()
    n = A.shape[1]
    numeric = ST.mode == "const"
    if ST.mode == "sym" and c.ENGINE.const_mode:
        # concolic configurations: a system whose entries are all constants is solved numerically
        try:
            Ad = A.todense() if isinstance(A, sparse.SpM) else np.asarray(A, dtype=object)
            [tofloat(v) for row in Ad for v in row]
            [tofloat(v) for v in np.asarray(b, dtype=object)]
            numeric = True
        except ValueError:
            numeric = False
    if ST.mode == "sym" and not numeric:
        z3 = _z3()
        x = fresh(name, n)
        r = A.dot(x) if isinstance(A, sparse.SpM) else np.dot(A, x)
        b = np.asarray(b, dtype=object)
        for ri, bi in zip(r, b):
            ta, tb = c._arith(ri, bi)
            c.ENGINE.add(ta == tb)
        return x
    if numeric:
        Ad = A.todense() if isinstance(A, sparse.SpM) else np.asarray(A, dtype=object)
        Af = np.array([[tofloat(v) for v in row] for row in Ad], dtype=float)
        bf = np.array([tofloat(v) for v in np.asarray(b, dtype=object)], dtype=float)
        xf = np.linalg.lstsq(Af, bf, rcond=None)[0] if Af.shape[0] != Af.shape[1] else np.linalg.solve(Af, bf)
        out = np.empty(n, dtype=object)
        for i in range(n):
            out[i] = c.const_real(float(xf[i]))
        return out
    raise RuntimeError("solve_contract in plain mode")


def names():
    return dict(ST.vars)


def lookup(table, idx):
    """table[idx] for a concrete table (list of ints) and a possibly symbolic integer index"""
    if ST.mode == "sym":
        c = _core()
        z3 = _z3()
        if isinstance(idx, c.Sym):
            vals = [int(v) for v in table]
            if not vals:
                return c.SymInt(z3.IntVal(0))
            t = z3.IntVal(vals[-1])
            for k in range(len(vals) - 2, -1, -1):
                t = z3.If(idx.t == k, z3.IntVal(vals[k]), t)
            return c.SymInt(t)
    if instrumented():
        c = _core()
        if isinstance(idx, c.Sym):
            idx = c.value_of(idx)
    return int(table[int(idx)])


def int_div(a, b):
    """floor division of a possibly symbolic integer by a positive concrete integer"""
    return a // b


def int_mod(a, b):
    return a % b
