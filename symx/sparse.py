"""scipy.sparse stand-in for symbolic entries.

Every SpM carries
  * ``shadow``: a *real* scipy sparse matrix in the format real scipy would produce for
    the same sequence of operations, holding generic positive values -- it alone decides
    the storage structure (which entries are stored, in which order, .indices/.indptr);
  * ``vals``: {(i, j): value} with the mathematical value of every stored entry
    (python numbers or Sym terms).
So hand-written edits of .data/.indices/.indptr in the code under test (C08) operate on
arrays laid out exactly as scipy lays them out.
"""
from __future__ import annotations

import numpy as _np
import scipy.sparse as _sps
import z3

from .core import ENGINE, Sym, Unsupported, rterm
from . import npx

_rng = _np.random.default_rng(20240607)


def _generic(n):
    return _rng.uniform(1.0, 2.0, n)


def _iszero(v):
    if isinstance(v, Sym):
        s = z3.simplify(rterm(v))
        return z3.is_rational_value(s) and s.numerator_as_long() == 0
    return v == 0


class SpM:
    def __init__(self, shadow, vals):
        self.shadow = shadow
        self._vals = vals
        self._data = None  # object array aligned with shadow (csc/csr only) once requested

    # ---------------- structure
    @property
    def shape(self):
        return self.shadow.shape

    @property
    def format(self):
        return self.shadow.format

    @property
    def nnz(self):
        return self.shadow.nnz

    def getformat(self):
        return self.shadow.format

    def _positions(self):
        """(i, j) of every stored entry in storage order (csc / csr)"""
        sh = self.shadow
        if sh.format == "csc":
            cols = _np.repeat(_np.arange(sh.shape[1]), _np.diff(sh.indptr))
            return list(zip(sh.indices.tolist(), cols.tolist()))
        if sh.format == "csr":
            rows = _np.repeat(_np.arange(sh.shape[0]), _np.diff(sh.indptr))
            return list(zip(rows.tolist(), sh.indices.tolist()))
        raise Unsupported(f".data/.indices of format {sh.format}")

    @property
    def vals(self):
        if self._data is not None:
            v = {}
            for p, ij in enumerate(self._positions()):
                if ij in v:
                    v[ij] = v[ij] + self._data[p]
                else:
                    v[ij] = self._data[p]
            return v
        return self._vals

    def _materialise(self):
        if self._data is None:
            pos = self._positions()
            d = _np.empty(len(pos), dtype=object)
            for p, ij in enumerate(pos):
                d[p] = self._vals.get(ij, 0.0)
            self._data = d
            self._vals = None
        return self._data

    @property
    def data(self):
        return self._materialise()

    @data.setter
    def data(self, v):
        self._materialise()
        v = _np.asarray(v, dtype=object)
        if v.shape != self._data.shape:
            raise Unsupported("resizing .data")
        self._data = v

    @property
    def indices(self):
        self._materialise()
        return self.shadow.indices

    @indices.setter
    def indices(self, v):
        self._materialise()
        self.shadow.indices = _np.asarray(v, dtype=self.shadow.indices.dtype)

    @property
    def indptr(self):
        self._materialise()
        return self.shadow.indptr

    @indptr.setter
    def indptr(self, v):
        self._materialise()
        self.shadow.indptr = _np.asarray(v, dtype=self.shadow.indptr.dtype)

    # ---------------- helpers
    @staticmethod
    def _from(shadow, vals, check_zero=False):
        """result matrix: structure from the shadow, values from vals (default 0.0)"""
        coo = shadow.tocoo()
        keys = set(zip(coo.row.tolist(), coo.col.tolist()))
        out = {}
        extra = [k for k, v in vals.items() if k not in keys and not _iszero(v)]
        if extra:
            raise Unsupported(f"sparse stand-in: value outside scipy's structure at {extra[:3]}")
        maybe_zero = []
        for k in keys:
            v = vals.get(k, 0.0)
            out[k] = v
            if check_zero and isinstance(v, Sym):
                s = z3.simplify(rterm(v))
                if not z3.is_rational_value(s):
                    maybe_zero.append(s == 0)
        if maybe_zero and ENGINE.active:
            r = ENGINE.check_sliced(z3.Or(*maybe_zero), timeout_ms=10000)
            if r != z3.unsat:
                ENGINE.notes.append("sparse: a stored entry of a sum/product may cancel; generic structure assumed")
                ENGINE.structure_value_dependent = True
        return SpM(shadow, out)

    def copy(self):
        m = SpM(self.shadow.copy(), dict(self.vals))
        return m

    def _conv(self, fmt):
        sh = self.shadow.asformat(fmt)
        if fmt in ("csc", "csr") and not sh.has_canonical_format and self.shadow.format == "coo":
            pass
        return SpM(sh, dict(self.vals))

    def tocsc(self, copy=False):
        return self._conv("csc")

    def tocsr(self, copy=False):
        return self._conv("csr")

    def tocoo(self, copy=False):
        return self._conv("coo")

    def asformat(self, fmt, copy=False):
        return self._conv(fmt)

    @property
    def T(self):
        return SpM(self.shadow.T, {(j, i): v for (i, j), v in self.vals.items()})

    def transpose(self):
        return self.T

    def diagonal(self, k=0):
        if k != 0:
            raise Unsupported("diagonal k")
        v = self.vals
        n = min(self.shape)
        return _np.array([v.get((i, i), 0.0) for i in range(n)] + [None], dtype=object)[:-1]

    def todense(self):
        A = _np.empty(self.shape, dtype=object)
        A[...] = 0.0
        for (i, j), v in self.vals.items():
            A[i, j] = v
        return A

    toarray = todense

    def sum(self, axis=None):
        if axis is not None:
            raise Unsupported("sparse sum axis")
        s = 0.0
        for v in self.vals.values():
            s = s + v
        return s

    # ---------------- algebra
    def dot(self, o):
        v = self.vals
        if isinstance(o, SpM):
            sh = self.shadow.dot(o.shadow)
            ov = o.vals
            rows = {}
            for (k, j), b in ov.items():
                rows.setdefault(k, []).append((j, b))
            out = {}
            for (i, k), a in v.items():
                for j, b in rows.get(k, ()):
                    p = a * b
                    out[(i, j)] = out[(i, j)] + p if (i, j) in out else p
            return SpM._from(sh, out, check_zero=True)
        o = _np.asarray(o) if not isinstance(o, _np.ndarray) else o
        if o.ndim == 1:
            if o.shape[0] != self.shape[1]:
                raise ValueError("dimension mismatch")
            res = _np.empty(self.shape[0], dtype=object)
            res[...] = 0.0
            for (i, j), a in v.items():
                res[i] = res[i] + a * o[j]
            return res
        if o.ndim == 2:
            if o.shape[0] != self.shape[1]:
                raise ValueError("dimension mismatch")
            res = _np.empty((self.shape[0], o.shape[1]), dtype=object)
            res[...] = 0.0
            for (i, j), a in v.items():
                for c in range(o.shape[1]):
                    res[i, c] = res[i, c] + a * o[j, c]
            return res
        raise Unsupported("sparse dot with ndim>2")

    __matmul__ = dot

    def __rmatmul__(self, o):
        return self.T.dot(_np.asarray(o).T).T

    def _addsub(self, o, sign):
        if not isinstance(o, SpM):
            return NotImplemented
        sh = self.shadow + o.shadow  # structure of a sum (scipy keeps the union unless values cancel)
        out = dict(self.vals)
        for k, b in o.vals.items():
            b = b if sign > 0 else -b
            out[k] = out[k] + b if k in out else b
        return SpM._from(sh, out, check_zero=True)

    def __add__(self, o):
        return self._addsub(o, +1)

    def __sub__(self, o):
        return self._addsub(o, -1)

    def __neg__(self):
        return SpM(-self.shadow, {k: -v for k, v in self.vals.items()})

    def __mul__(self, s):
        if isinstance(s, SpM):
            return self.dot(s)
        if isinstance(s, _np.ndarray):
            if s.ndim == 0:
                s = s.item()
            else:
                return self.dot(s)
        return SpM(self.shadow * 1.5, {k: v * s for k, v in self.vals.items()})

    def __rmul__(self, s):
        if isinstance(s, _np.ndarray) and s.ndim > 0:
            return NotImplemented
        return SpM(self.shadow * 1.5, {k: s * v for k, v in self.vals.items()})

    def __truediv__(self, s):
        return SpM(self.shadow * 1.5, {k: v / s for k, v in self.vals.items()})

    def multiply(self, o):
        raise Unsupported("sparse multiply")

    def __getitem__(self, key):
        sh = self.shadow[key]
        if not _sps.issparse(sh):
            i, j = key
            return self.vals.get((int(i), int(j)), 0.0)
        r, c = key
        if not (isinstance(r, slice) and isinstance(c, slice)):
            raise Unsupported("sparse fancy indexing")
        ri = range(*r.indices(self.shape[0]))
        ci = range(*c.indices(self.shape[1]))
        rm = {i: a for a, i in enumerate(ri)}
        cm = {j: b for b, j in enumerate(ci)}
        vals = {(rm[i], cm[j]): v for (i, j), v in self.vals.items() if i in rm and j in cm}
        return SpM._from(sh, vals)

    def sort_indices(self):
        """in place, exactly like scipy: data and indices arrays are permuted (aliases see it)"""
        if self.shadow.format not in ("csc", "csr"):
            return
        if self.shadow.has_sorted_indices:
            return
        d = self._materialise()
        keep = self.shadow.data.copy()
        self.shadow.data[:] = _np.arange(len(d), dtype=float)
        self.shadow.has_sorted_indices = False
        self.shadow.sort_indices()
        perm = self.shadow.data.astype(int)
        d[:] = d[perm]
        self.shadow.data[:] = keep[perm]

    @property
    def has_sorted_indices(self):
        return self.shadow.has_sorted_indices

    def asfptype(self):
        return self

    def eliminate_zeros(self):
        raise Unsupported("eliminate_zeros")

    def __repr__(self):
        return f"<SpM {self.shape} {self.format} nnz={self.nnz}>"


def _mk(shadow, vals):
    return SpM._from(shadow, vals)


class _CSCMeta(type):
    def __instancecheck__(cls, inst):
        if isinstance(inst, SpM):
            return inst.format == cls._fmt
        return isinstance(inst, cls._real)


def _ctor(fmt, real):
    class _M(metaclass=_CSCMeta):
        _fmt = fmt
        _real = real

        def __new__(cls, arg, shape=None, dtype=None, copy=False):
            if not ENGINE.active and not isinstance(arg, SpM) and not npx.has_sym(arg if not isinstance(arg, tuple) else arg[0]):
                return real(arg, shape=shape, dtype=dtype)
            if isinstance(arg, SpM):
                return arg._conv(fmt)
            if isinstance(arg, tuple) and len(arg) == 2 and isinstance(arg[1], tuple):
                data, (row, col) = arg
                data = _np.asarray(data, dtype=object) if not isinstance(data, _np.ndarray) else data
                row = _np.asarray(npx.demote(_np.asarray(row))).astype(int)
                col = _np.asarray(npx.demote(_np.asarray(col))).astype(int)
                sh = real((_generic(len(row)), (row, col)), shape=shape)
                vals = {}
                for d, r, c in zip(data, row.tolist(), col.tolist()):
                    vals[(r, c)] = vals[(r, c)] + d if (r, c) in vals else d
                return SpM._from(sh, vals)
            if isinstance(arg, tuple) and len(arg) == 3:
                data, indices, indptr = arg
                indices = _np.asarray(npx.demote(_np.asarray(indices))).astype(int)
                indptr = _np.asarray(npx.demote(_np.asarray(indptr))).astype(int)
                sh = real((_generic(len(indices)), indices.copy(), indptr.copy()), shape=shape)
                m = SpM(sh, None)
                m._data = _np.array(list(data) + [None], dtype=object)[:-1]
                if len(m._data) != len(indices):
                    raise ValueError("data and indices length mismatch")
                return m
            if isinstance(arg, _np.ndarray) and arg.ndim == 2:
                if npx.really_sym(arg):
                    raise Unsupported("sparse from symbolic dense matrix")
                a = npx.demote(arg)
                sh = real(a)
                coo = sh.tocoo()
                return SpM(sh, {(int(i), int(j)): float(v) for i, j, v in zip(coo.row, coo.col, coo.data)})
            raise Unsupported(f"{fmt}_matrix constructor form")

    _M.__name__ = fmt + "_matrix"
    return _M


class _SpLinalg:
    def __getattr__(self, name):
        import scipy.sparse.linalg as L

        return getattr(L, name)

    def splu(self, A, *a, **k):
        if isinstance(A, SpM):
            hook = getattr(ENGINE, "splu_hook", None)
            if hook is None:
                raise Unsupported("splu on symbolic matrix without stub")
            return hook(A)
        import scipy.sparse.linalg as L

        return L.splu(A, *a, **k)

    def spsolve(self, A, b, *a, **k):
        if isinstance(A, SpM):
            hook = getattr(ENGINE, "splu_hook", None)
            if hook is None:
                raise Unsupported("spsolve on symbolic matrix without stub")
            return hook(A).solve(b)
        import scipy.sparse.linalg as L

        return L.spsolve(A, b, *a, **k)


class SpsProxy:
    csc_matrix = _ctor("csc", _sps.csc_matrix)
    csr_matrix = _ctor("csr", _sps.csr_matrix)
    linalg = _SpLinalg()

    def __getattr__(self, name):
        return getattr(_sps, name)

    def diags(self, v, offsets=0, shape=None, format=None, dtype=None):
        if not ENGINE.active and not npx.has_sym(v):
            return _sps.diags(v, offsets, shape=shape, format=format, dtype=dtype)
        if offsets != 0 or shape is not None:
            raise Unsupported("diags with offsets")
        v = _np.asarray(v, dtype=object) if not isinstance(v, _np.ndarray) else v
        if v.ndim != 1:
            raise Unsupported("diags with 2d input")
        n = len(v)
        sh = _sps.diags(_generic(n), format=format)
        return SpM(sh, {(i, i): v[i] for i in range(n)})

    def eye(self, n, m=None, k=0, dtype=float, format=None):
        if not ENGINE.active:
            return _sps.eye(n, m, k, dtype=dtype, format=format)
        if k != 0 or (m is not None and m != n):
            raise Unsupported("eye")
        sh = _sps.eye(n, format=format)
        return SpM(sh, {(i, i): 1.0 for i in range(n)})

    identity = eye

    def bmat(self, blocks, format=None, dtype=None):
        flat = [b for row in blocks for b in row if b is not None]
        if not any(isinstance(b, SpM) for b in flat):
            return _sps.bmat(blocks, format=format, dtype=dtype)
        if not all(isinstance(b, SpM) for b in flat):
            raise Unsupported("bmat mixing scipy and symbolic blocks")
        shb = [[None if b is None else b.shadow for b in row] for row in blocks]
        sh = _sps.bmat(shb, format=format)
        nr, nc = len(blocks), len(blocks[0])
        rs, cs = [None] * nr, [None] * nc
        for i in range(nr):
            for j in range(nc):
                b = blocks[i][j]
                if b is not None:
                    rs[i], cs[j] = b.shape[0], b.shape[1]
        ro = _np.cumsum([0] + rs)
        co = _np.cumsum([0] + cs)
        out = {}
        for i in range(nr):
            for j in range(nc):
                b = blocks[i][j]
                if b is not None:
                    for (p, q), v in b.vals.items():
                        out[(int(ro[i]) + p, int(co[j]) + q)] = v
        return SpM._from(sh, out)

    def issparse(self, x):
        return isinstance(x, SpM) or _sps.issparse(x)

    isspmatrix = issparse

    def isspmatrix_csr(self, x):
        return (isinstance(x, SpM) and x.format == "csr") or _sps.isspmatrix_csr(x)

    def isspmatrix_csc(self, x):
        return (isinstance(x, SpM) and x.format == "csc") or _sps.isspmatrix_csc(x)


SPS = SpsProxy()
