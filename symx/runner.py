"""Runner: explores every path of every configuration of a check in forked children,
decides the claims with z3, replays counterexamples on the plainly imported code,
applies the known-findings file, writes the evidence file and sets the exit status.

exit 0  no (new) violation         exit 1  VIOLATION printed        exit 3  harness error
"""
from __future__ import annotations

import argparse
import collections
import fnmatch
import hashlib
import importlib
import json
import os
import pickle
import select
import signal
import subprocess
import sys
import threading
import time
import traceback
from fractions import Fraction

VERIF = os.path.dirname(os.path.dirname(os.path.abspath(__file__)))
HARNESS_ERROR = 3

DEFAULTS = dict(
    query_timeout_ms=30000,
    max_paths=400,
    path_wall_s=600,
    validate=6,  # number of configurations validated const-vs-plain (spread over the list)
    exact_literal_modules=(),
    workers=None,
    plain_workers=4,
    models_per_claim=3,
    branch_timeout_ms=3000,
    vacuity_timeout_ms=10000,
)


# ----------------------------------------------------------------------------- child side


def _model_values(model, z3, api):
    out = {}
    for name, kind in api.ST.vars.items():
        if kind == "fp":
            from . import fp as F

            val = model.eval(z3.FP(name, F.F64), model_completion=True)
            out[name] = F._fpvalue_to_float(val).hex() if z3.is_fp_value(val) else str(val)
            continue
        v = z3.Real(name) if kind == "real" else (z3.Int(name) if kind == "int" else z3.Bool(name))
        val = model.eval(v, model_completion=True)
        if kind == "real":
            if z3.is_rational_value(val):
                out[name] = f"{val.numerator_as_long()}/{val.denominator_as_long()}"
            elif z3.is_algebraic_value(val):
                fr = val.approx(30).as_fraction()
                out[name] = f"{fr.numerator}/{fr.denominator}"
            else:
                out[name] = str(val)
        elif kind == "int":
            out[name] = str(val.as_long()) if z3.is_int_value(val) else str(val)
        else:
            out[name] = "True" if z3.is_true(val) else "False"
    # interpretations of the uninterpreted functions the harness declared (finite table + else)
    def num(v):
        if z3.is_rational_value(v):
            return f"{v.numerator_as_long()}/{v.denominator_as_long()}"
        if z3.is_int_value(v):
            return str(v.as_long())
        if z3.is_algebraic_value(v):
            fr = v.approx(30).as_fraction()
            return f"{fr.numerator}/{fr.denominator}"
        return None
    for name in api.ST.ufs:
        for d in model.decls():
            if d.name() == name and d.arity() > 0:
                fi = model[d]
                try:
                    entries = []
                    for k in range(fi.num_entries()):
                        e = fi.entry(k)
                        args = [num(e.arg_value(j)) for j in range(e.num_args())]
                        val = num(e.value())
                        if val is None or any(a is None for a in args):
                            raise ValueError
                        entries.append([args, val])
                    els = num(fi.else_value())
                    if els is None:
                        raise ValueError
                    out["uf:" + name] = dict(entries=entries, els=els)
                except Exception:  # noqa: BLE001  (non-constant else branch etc.: fall back to the generic function)
                    pass
    return out


def _region_term(expr, z3, api):
    """known-finding region: python expression over the declared input variables"""
    env = {"z3": z3, "And": z3.And, "Or": z3.Or, "Not": z3.Not, "Implies": z3.Implies, "If": z3.If, "ToInt": z3.ToInt}
    for name, kind in api.ST.vars.items():
        env[name] = z3.Real(name) if kind == "real" else (z3.Int(name) if kind == "int" else z3.Bool(name))
    return eval(expr, env)  # noqa: S307 (trusted file under /verif)


def _fp_solve(assertions, timeout_ms, stats):
    """decide a floating-point query: cvc5 binary first (SMT-LIB written from the z3 terms), z3 as fallback.
    returns (verdict, model {name: hex float} or None, backend)"""
    import subprocess
    import tempfile

    import z3

    from . import fp as F

    sol = z3.Solver()
    sol.add(*assertions)
    text = sol.to_smt2()
    text = "(set-option :produce-models true)\n(set-logic QF_FP)\n" + text.replace("(check-sat)", "(check-sat)\n(get-model)")
    t0 = time.time()
    verdict, model, backend = "unknown", None, "cvc5"
    try:
        with tempfile.NamedTemporaryFile("w", suffix=".smt2", delete=False) as f:
            f.write(text)
            path = f.name
        p = subprocess.run(["cvc5", "--lang=smt2", f"--tlimit={int(timeout_ms)}", path], capture_output=True, text=True, timeout=timeout_ms / 1000 + 30)
        os.unlink(path)
        first = (p.stdout.strip().splitlines() or ["unknown"])[0].strip()
        rest = "\n".join(p.stdout.strip().splitlines()[1:])
        if first.startswith("(error") or "(error" in p.stderr or (first == "sat" and "(error" in rest):
            first = "error"  # an error before the verdict (or while printing the model) is inconclusive
        if first == "unsat":
            verdict = "unsat"
        elif first == "sat":
            verdict = "sat"
            model = {k: v.hex() for k, v in F.parse_cvc5_model(p.stdout).items()}
        else:
            verdict = "unknown"
    except Exception:  # noqa: BLE001
        verdict = "unknown"
    stats["queries"] += 1
    if verdict == "unknown":
        backend = "z3"
        sol.set("timeout", int(timeout_ms))
        r = sol.check()
        stats["queries"] += 1
        if r == z3.unsat:
            verdict = "unsat"
        elif r == z3.sat:
            verdict = "sat"
            m = sol.model()
            model = {}
            for d in m.decls():
                v = m[d]
                if z3.is_fp_value(v):
                    model[d.name()] = F._fpvalue_to_float(v).hex()
    stats["solver_s"] += time.time() - t0
    return verdict, model, backend


def child_sym(mod, cfg, schedule, opts, findings):
    import z3

    from . import api, core, loader

    E = core.ENGINE
    t0 = time.time()
    # ---- "used process": the same harness body first runs once on seeded CONSTANTS through the instrumented
    # code (claims ignored), so that module-, class- and default-instance-level state of the library is no
    # longer pristine when the symbolic run starts.  A cache keyed too coarsely then feeds constants of the
    # warm-up into a run whose inputs are symbols, and the claims fail.  The warm-up inputs travel with every
    # counterexample so that the plain replay warms up the same way.
    warm = None
    wmode = opts.get("warmup", "all")
    if wmode and not (wmode == "first" and schedule):
        wcfg = mod.warmup_cfg(cfg) if hasattr(mod, "warmup_cfg") else cfg
        if wcfg is not None:
            try:
                rw = child_const(mod, wcfg, seed=4242)
                warm = dict(cfg=wcfg, values=rw.get("drawn"), status=rw.get("status"))
            except BaseException as e:  # noqa: BLE001
                warm = dict(cfg=wcfg, values=None, status=f"crash {type(e).__name__}")
            E.const_mode = False
            E.active = False
    api.reset("sym")
    E.reset(schedule)
    E.timeout_ms = opts.get("branch_timeout_ms", 3000)  # branch feasibility: unknown => both sides explored
    E.structure_value_dependent = False
    loader.ENTERED.clear()
    res = dict(status="ok", claims=[], pending=[], notes=[], error=None, warmup=warm)
    E.active = True
    try:
        if hasattr(mod, "prepare"):
            mod.prepare(cfg)
        mod.body(cfg)
    except core.PathAbort:
        res["status"] = "infeasible"
    except core.Unsupported as e:
        res["status"] = "unsupported"
        res["error"] = f"Unsupported: {e}"
        res["trace"] = traceback.format_exc(limit=12)
    except api.HarnessSkip as e:
        res["status"] = "skipped"
        res["error"] = str(e)
    except Exception as e:  # noqa: BLE001
        res["status"] = "exception"
        res["error"] = f"{type(e).__name__}: {e}"
        res["exc_type"] = type(e).__name__
        res["trace"] = traceback.format_exc(limit=14)
    finally:
        E.active = False
    res["pending"] = list(E.pending)
    res["schedule"] = list(E.schedule)
    res["entered"] = sorted(loader.ENTERED)
    res["notes"] = list(E.notes)
    pc = list(E.pc)
    # denominators are assumed non-zero (documented preconditions: positive sizes / weights)
    dens = []
    seen = set()
    for d in E.dens:
        k = d.get_id()
        if k not in seen:
            seen.add(k)
            dens.append(d != 0)
    res["n_dens"] = len(dens)
    if getattr(E, "structure_value_dependent", False):
        res["status"] = "unsupported" if res["status"] == "ok" else res["status"]
        res["error"] = res["error"] or "sparsity structure depends on values"

    if res["status"] in ("infeasible", "skipped"):
        res["stats"] = dict(E.stats, wall=time.time() - t0)
        return res

    if any(k_ == "fp" for k_ in api.ST.vars.values()) and res["status"] == "ok":
        # bit-precise lemma: every query is a QF_FP problem for cvc5 (z3 as fallback)
        v0, m0, _b = _fp_solve(pc, opts.get("vacuity_timeout_ms", 10000) * 3, E.stats)
        res["pc_sat"] = v0
        if v0 == "unsat":
            res["status"] = "infeasible"
            res["stats"] = dict(E.stats, wall=time.time() - t0)
            return res
        res["witness"] = m0
        for name, cond in list(api.ST.claims):
            entry = dict(name=name, verdict=None, trivial=False, models=[], solver_s=0.0, known=None)
            c = z3.simplify(cond)
            if z3.is_true(c):
                entry.update(verdict="unsat", trivial=True)
            else:
                tq = time.time()
                v1, m1, b1 = _fp_solve(pc + [z3.Not(cond)], max(opts["query_timeout_ms"], cfg.get("fp_timeout_ms", 0)), E.stats)
                entry["solver_s"] = time.time() - tq
                entry["verdict"] = v1
                entry["backend"] = b1
                if v1 == "sat" and m1 is not None:
                    entry["models"].append({k_: v_ for k_, v_ in m1.items() if k_ in api.ST.vars})
                    for f in findings:
                        if not f.get("region") and fnmatch.fnmatch(name, f.get("claim", "*")) and _cfg_match(cfg, f.get("config")):
                            entry["known"] = f["id"]
                if len(res.get("samples", [])) < 1:
                    sol_ = z3.Solver()
                    sol_.add(*pc)
                    sol_.add(z3.Not(cond))
                    res.setdefault("samples", []).append(dict(claim=name, smt2=sol_.to_smt2()[:6000]))
            res["claims"].append(entry)
        res["stats"] = dict(E.stats, wall=time.time() - t0)
        return res

    # vacuity / reachability: the path condition (incl. harness assumptions) must be satisfiable
    s = z3.Solver()
    s.set("timeout", opts.get("vacuity_timeout_ms", 10000))
    s.add(*pc)
    s.add(*dens)
    tq = time.time()
    r = z3.unknown
    if api.ST.hints:
        # witness search with the harness' hints (e.g. arbitrary weights := 1 makes the rest linear)
        s.push()
        s.add(*api.ST.hints)
        r = s.check()
        E.stats["queries"] += 1
        if r != z3.sat:
            s.pop()
            r = z3.unknown
    if r != z3.sat:
        r = s.check()
        E.stats["queries"] += 1
    E.stats["solver_s"] += time.time() - tq
    res["pc_sat"] = str(r)
    if r == z3.unsat:
        res["status"] = "infeasible"
        res["stats"] = dict(E.stats, wall=time.time() - t0)
        return res
    witness = _model_values(s.model(), z3, api) if r == z3.sat else None
    res["witness"] = witness

    if res["status"] == "exception":
        # an exception on a feasible path: candidate violation, to be replayed by the parent
        ename = "no_exception:" + res.get("exc_type", "?")
        kn = next((f["id"] for f in findings if not f.get("region") and fnmatch.fnmatch(ename, f.get("claim", "*")) and _cfg_match(cfg, f.get("config"))), None)
        res["claims"].append(dict(name=ename, verdict="sat", trivial=False, models=[witness] if witness is not None else [], solver_s=0.0, known=kn))
        res["stats"] = dict(E.stats, wall=time.time() - t0)
        return res
    if res["status"] == "unsupported":
        res["stats"] = dict(E.stats, wall=time.time() - t0)
        return res

    E.pc = pc + dens
    E._pcvars = []
    claims = list(api.ST.claims) + [("lemma:" + n, c) for n, c in E.lemmas]
    for name, cond in claims:
        entry = dict(name=name, verdict=None, trivial=False, models=[], solver_s=0.0, known=None)
        c = z3.simplify(cond)
        if z3.is_true(c):
            entry["verdict"] = "unsat"
            entry["trivial"] = True
            res["claims"].append(entry)
            continue
        neg = z3.Not(cond)
        tq = time.time()
        if z3.is_false(c):
            r = z3.sat
            sl = None
        else:
            def _query(negated, timeout):
                # depth-1 slice first (sound for unsat); a sat answer is confirmed on the full cone
                for depth in (1, None):
                    q = z3.Solver()
                    q.set("timeout", int(timeout))
                    for k in E._slice(negated, depth):
                        q.add(k)
                    q.add(negated)
                    E.stats["queries"] += 1
                    rq = q.check()
                    if rq != z3.sat:
                        if rq == z3.unknown and depth == 1:
                            continue
                        return rq, q
                return rq, q

            conj = _conjuncts(c, z3)
            if len(conj) > 1:
                # a conjunction: first as a whole under a short cap, then conjunct by conjunct
                r, sl = _query(neg, min(3000, opts["query_timeout_ms"]))
                if r == z3.unknown:
                    r = z3.unsat
                    for cj in conj:
                        rj, slj = _query(z3.Not(cj), opts["query_timeout_ms"])
                        if rj == z3.unknown:
                            rj, slj = _query(z3.Not(cj), opts["query_timeout_ms"] * 5)
                        if rj == z3.sat:
                            r, sl, neg = rj, slj, z3.Not(cj)
                            break
                        if rj == z3.unknown:
                            r, sl = rj, slj
                    entry["split"] = len(conj)
            else:
                r, sl = _query(neg, opts["query_timeout_ms"])
                if r == z3.unknown:
                    # retry once with a 5x cap
                    r, sl = _query(neg, opts["query_timeout_ms"] * 5)
        entry["solver_s"] = time.time() - tq
        E.stats["solver_s"] += entry["solver_s"]
        if len(res.get("samples", [])) < 1 and sl is not None:
            try:
                txt = sl.to_smt2()
                if len(txt) < 20000:
                    res.setdefault("samples", []).append(dict(claim=name, smt2=txt))
            except Exception:  # noqa: BLE001
                pass
        if r == z3.unsat:
            entry["verdict"] = "unsat"
        elif r == z3.unknown:
            entry["verdict"] = "unknown"
        else:
            entry["verdict"] = "sat"
            # full model (path condition outside the slice is independent and satisfiable)
            full = z3.Solver()
            full.set("timeout", opts["query_timeout_ms"] * 2)
            full.add(*E.pc)
            full.add(neg)
            # known findings with a region: look for a violation outside every listed region
            regions = []
            for f in findings:
                if fnmatch.fnmatch(name, f.get("claim", "*")) and _cfg_match(cfg, f.get("config")):
                    if f.get("region"):
                        try:
                            regions.append((f, _region_term(f["region"], z3, api)))
                        except Exception as e:  # noqa: BLE001
                            res["notes"].append(f"bad region in finding {f.get('id')}: {e}")
                    else:
                        entry["known"] = f["id"]
            if regions and entry["known"] is None:
                full.push()
                for f, reg in regions:
                    full.add(z3.Not(reg))
                rr = full.check()
                E.stats["queries"] += 1
                if rr == z3.sat:
                    pass  # violation outside all listed regions: report as new
                else:
                    full.pop()
                    entry["known"] = regions[0][0]["id"]
                    entry["outside_region"] = str(rr)
            rfull = full.check()
            E.stats["queries"] += 1
            if rfull == z3.unsat:
                entry["verdict"] = "unsat"
                res["claims"].append(entry)
                continue
            for k in range(opts["models_per_claim"]):
                if k == 1:
                    full.set("timeout", 5000)  # extra models are a convenience for replay only
                tq = time.time()
                rr = full.check()
                E.stats["queries"] += 1
                E.stats["solver_s"] += time.time() - tq
                if rr != z3.sat:
                    break
                m = full.model()
                mv = _model_values(m, z3, api)
                entry["models"].append(mv)
                # ask for a different valuation next time
                diffs = []
                for nme, kind in api.ST.vars.items():
                    if kind == "real":
                        v = z3.Real(nme)
                        diffs.append(v != m.eval(v, model_completion=True))
                if not diffs:
                    break
                full.add(z3.Or(*diffs[:40]))
            if not entry["models"] and witness and z3.is_false(c):
                entry["models"].append(witness)
        res["claims"].append(entry)
    res["stats"] = dict(E.stats, wall=time.time() - t0)
    return res


def _conjuncts(c, z3):
    out = []
    stack = [c]
    while stack:
        x = stack.pop()
        if z3.is_and(x):
            stack.extend(x.children())
        elif not z3.is_true(x):
            out.append(x)
    return out


def _cfg_match(cfg, pat):
    if not pat:
        return True
    for k, v in pat.items():
        if k not in cfg:
            return False
        if isinstance(v, str) and isinstance(cfg[k], str):
            if not fnmatch.fnmatch(cfg[k], v):
                return False
        elif cfg[k] != v:
            return False
    return True


def child_const(mod, cfg, seed, values=None):
    from . import api, core, loader

    E = core.ENGINE
    api.reset("const", values=values, seed=seed)
    E.reset([])
    E.const_mode = True
    res = dict(status="ok", claims=[], observed={}, drawn={}, error=None)
    tries = 0
    while True:
        E.active = True
        try:
            if hasattr(mod, "seed_values") and values is None:
                import random

                api.ST.values = mod.seed_values(cfg, random.Random(seed * 1000 + tries)) or {}
            if hasattr(mod, "prepare"):
                mod.prepare(cfg)
            mod.body(cfg)
            break
        except api.AssumeFailed:
            tries += 1
            if tries > 50 or values is not None:
                res["status"] = "assume_failed"
                break
            api.reset("const", seed=seed * 1000 + tries)
            E.reset([])
        except api.HarnessSkip as e:
            res["status"] = "skipped"
            res["error"] = str(e)
            break
        except (core.Unsupported, core.PathAbort) as e:
            res["status"] = "unsupported"
            res["error"] = f"{type(e).__name__}: {e}"
            res["trace"] = traceback.format_exc(limit=12)
            break
        except Exception as e:  # noqa: BLE001
            res["status"] = "exception"
            res["error"] = f"{type(e).__name__}: {e}"
            res["exc_type"] = type(e).__name__
            res["trace"] = traceback.format_exc(limit=12)
            break
        finally:
            E.active = False
    res["claims"] = [(n, bool(c)) for n, c in api.ST.claims]
    res["observed"] = api.ST.observed
    vals = dict(api.ST.values)
    vals.update({k: (str(Fraction(v)) if isinstance(v, float) else str(v)) for k, v in api.ST.drawn.items()})
    res["drawn"] = {k: (v if isinstance(v, str) else str(v)) for k, v in vals.items()}
    return res


def _fork_call(fn, *args):
    """run fn(*args) in a forked child; returns (pid, read_fd)"""
    r, w = os.pipe()
    pid = os.fork()
    if pid == 0:
        os.close(r)
        try:
            signal.signal(signal.SIGINT, signal.SIG_DFL)
            try:
                out = fn(*args)
            except BaseException as e:  # noqa: BLE001
                out = dict(status="crash", error=f"{type(e).__name__}: {e}", trace=traceback.format_exc(limit=14), claims=[], pending=[])
            data = pickle.dumps(out)
            with os.fdopen(w, "wb") as f:
                f.write(data)
        finally:
            os._exit(0)
    os.close(w)
    return pid, r


# ----------------------------------------------------------------------------- plain workers


class PlainWorker:
    def __init__(self, modname, mutations=None, log=None):
        env = dict(os.environ)
        env["PYTHONPATH"] = (os.environ["VERIF_REPO_SRC"] + os.pathsep if os.environ.get("VERIF_REPO_SRC") else "") + VERIF + os.pathsep + env.get("PYTHONPATH", "")
        env["PYTHONDONTWRITEBYTECODE"] = "1"
        env["NUMBA_CACHE_DIR"] = os.path.join(VERIF, ".numba_cache")  # keep numba's cache=True out of /repo
        env["NUMBA_THREADING_LAYER"] = "workqueue"  # OpenMP aborts in the per-request forked children
        cmd = [sys.executable, "-m", "symx.plainworker", modname]
        if mutations:
            cmd += ["--mutations", json.dumps(mutations)]
        self.p = subprocess.Popen(cmd, stdin=subprocess.PIPE, stdout=subprocess.PIPE, stderr=log or subprocess.DEVNULL, env=env, cwd=VERIF, text=True)
        self.lock = threading.Lock()

    def call(self, req, timeout=600):
        with self.lock:
            self.p.stdin.write(json.dumps(req) + "\n")
            self.p.stdin.flush()
            line = self.p.stdout.readline()
            if not line:
                return dict(status="crash", error="plain worker died", claims=[], observed={})
            return json.loads(line)

    def close(self):
        try:
            self.p.stdin.close()
            self.p.wait(timeout=5)
        except Exception:  # noqa: BLE001
            self.p.kill()


class PlainPool:
    def __init__(self, modname, n, mutations=None):
        self.log = open(os.path.join(VERIF, ".plain.log"), "a")
        self.workers = [PlainWorker(modname, mutations, self.log) for _ in range(n)]
        self.i = 0
        self.lock = threading.Lock()

    def call(self, req):
        with self.lock:
            w = self.workers[self.i % len(self.workers)]
            self.i += 1
        return w.call(req)

    def map(self, reqs):
        out = [None] * len(reqs)

        def work(k):
            out[k] = self.workers[k % len(self.workers)].call(reqs[k])

        ths = []
        # one thread per worker, each processing its share sequentially
        def runner(wi):
            for k in range(wi, len(reqs), len(self.workers)):
                work(k)

        for wi in range(len(self.workers)):
            t = threading.Thread(target=runner, args=(wi,))
            t.start()
            ths.append(t)
        for t in ths:
            t.join()
        return out

    def close(self):
        for w in self.workers:
            w.close()
        self.log.close()


# ----------------------------------------------------------------------------- parent side


def cfg_key(cfg):
    return json.dumps(cfg, sort_keys=True, separators=(",", ":"))


def load_findings(prop):
    path = os.path.join(VERIF, "known_findings.json")
    if not os.path.exists(path):
        return [], []
    data = json.load(open(path))
    open_ = [f for f in data.get("findings", []) if f.get("property") == prop and f.get("status", "open") == "open"]
    fixed = [f for f in data.get("findings", []) if f.get("property") == prop and f.get("status") == "fixed"]
    return open_, fixed


def run_check(modname, tier, seed, only=None, mutations=None, write_evidence=True, canaries=True, verbose=False, validate_only=False):
    t_start = time.time()
    from . import loader

    prop_mod_name = f"checks.{modname}"
    sys.path.insert(0, VERIF)
    # the check module may configure the loader before darsia is imported
    premod = importlib.import_module(prop_mod_name)
    opts = dict(DEFAULTS)
    opts.update(getattr(premod, "OPTIONS", {}))
    if hasattr(premod, "options"):
        opts.update(premod.options(tier))
    OBS_RTOL[0] = opts.get("obs_rtol", 1e-9)
    loader.install(exact_literal_modules=opts["exact_literal_modules"], mutations=mutations)
    import warnings

    warnings.simplefilter("ignore")
    import darsia  # noqa: F401  (instrumented import)

    mod = premod
    prop = mod.PROPERTY
    if hasattr(mod, "install_stubs"):
        mod.install_stubs()
    configs = mod.configs(tier)
    if only:
        configs = [c for c in configs if only in cfg_key(c)]
    findings_open, findings_fixed = load_findings(prop)
    nworkers = opts["workers"] or min(16, os.cpu_count() or 4)

    out_lines = []

    def say(s):
        print(s, flush=True)
        out_lines.append(s)

    say(f"[{prop}] tier={tier} seed={seed} configs={len(configs)} workers={nworkers}")

    plain = PlainPool(prop_mod_name, opts["plain_workers"], mutations)
    harness_errors = []
    inconclusive = []

    # ---------------- translator validation: const (through the hook) vs plain import
    nval = opts["validate"]
    cand = [i for i in range(len(configs)) if not hasattr(mod, "validate_filter") or mod.validate_filter(configs[i])]
    if nval == "all" or nval >= len(cand):
        vidx = list(cand)
    else:
        step = max(1, len(cand) // max(1, nval))
        vidx = sorted(set(cand[::step][:nval] + cand[-1:])) if cand else []
    if hasattr(mod, "validate_always"):
        # configurations whose claims only the plain import can evaluate are always part of the reference run
        vidx = sorted(set(vidx) | {i for i in range(len(configs)) if mod.validate_always(configs[i])})
    val_jobs = collections.deque((i, seed + 7 * k) for k, i in enumerate(vidx))
    val_results = {}
    running = {}
    while val_jobs or running:
        while val_jobs and len(running) < nworkers:
            i, sd = val_jobs.popleft()
            pid, fd = _fork_call(child_const, mod, configs[i], sd)
            running[fd] = (pid, i, sd, time.time())
        if running:
            ready, _, _ = select.select(list(running), [], [], 1.0)
            for fd in ready:
                pid, i, sd, _t = running.pop(fd)
                with os.fdopen(fd, "rb") as f:
                    data = f.read()
                os.waitpid(pid, 0)
                val_results[i] = (sd, pickle.loads(data) if data else dict(status="crash", error="no data", claims=[], observed={}, drawn={}))
    reqs = []
    order = []
    for i, (sd, rc) in sorted(val_results.items()):
        if rc["status"] in ("ok", "exception"):
            reqs.append(dict(cfg=configs[i], values=rc["drawn"], seed=sd))
            order.append(i)
    plain_res = plain.map(reqs) if reqs else []
    validated = 0
    val_samples = []
    reference_failures = []  # claims that are false on the plain import for the seeded reference inputs
    for i, rp in zip(order, plain_res):
        sd, rc = val_results[i]
        if rp.get("status") == "ok":
            for cname, good in rp.get("claims", []):
                if not good and not any(fnmatch.fnmatch(cname, f.get("claim", "*")) and _cfg_match(configs[i], f.get("config")) for f in findings_open):
                    reference_failures.append((i, cname, rc["drawn"], rp, sd))
        elif rp.get("status") == "exception" and rc["status"] == "ok":
            # the real code raises on the reference inputs although the harness body ran through on the
            # instrumented side (e.g. a body whose real work only happens on the plain import)
            cname = f"no_exception:{rp.get('exc_type')}"
            if not any(fnmatch.fnmatch(cname, f.get("claim", "*")) and _cfg_match(configs[i], f.get("config")) for f in findings_open):
                reference_failures.append((i, cname, rc["drawn"], rp, sd))
        diffs = _compare_validation(rc, rp)
        if diffs:
            harness_errors.append(f"translator validation mismatch cfg={cfg_key(configs[i])}: {diffs[:4]}")
            if verbose:
                print(rc.get("trace"), rp.get("trace"))
        else:
            validated += 1
            if len(val_samples) < 2:
                val_samples.append(dict(cfg=configs[i], inputs={k: v for k, v in list(rc["drawn"].items())[:6]}, claims=rc["claims"][:6]))
    for i, (sd, rc) in val_results.items():
        if rc["status"] in ("unsupported", "crash", "assume_failed"):
            harness_errors.append(f"translator validation could not run cfg={cfg_key(configs[i])}: {rc['status']} {rc.get('error')}")
            if verbose and rc.get("trace"):
                print(rc["trace"])
    if verbose:
        print(f"[timing] validation done at {time.time()-t_start:.1f}s")
    say(f"[{prop}] translator validation: {validated}/{len(vidx)} configurations agree (instrumented-with-constants vs plain import)")

    # ---------------- symbolic exploration
    jobs = collections.deque((i, []) for i in range(len(configs)) if not validate_only)
    running = {}
    per_cfg = collections.defaultdict(lambda: dict(paths=0, feasible=0, infeasible=0, unsupported=0, claims=0, budget_hit=False))
    stats = collections.Counter()
    all_claims = []  # (cfg index, schedule, entry)
    entered = set()
    samples = []
    path_samples = []
    solver_s = 0.0
    while jobs or running:
        while jobs and len(running) < nworkers:
            i, sched = jobs.popleft()
            if per_cfg[i]["paths"] + sum(1 for v in running.values() if v[1] == i) >= opts["max_paths"]:
                per_cfg[i]["budget_hit"] = True
                continue
            if per_cfg[i].get("sat_paths", 0) >= opts.get("stop_after_sat_paths", 6):
                # this configuration already has counterexamples on several paths: the verdict cannot become a
                # pass any more, further paths only cost time (never taken on a tree where the property holds)
                per_cfg[i]["cut_after_violations"] = True
                continue
            pid, fd = _fork_call(child_sym, mod, configs[i], sched, opts, findings_open)
            running[fd] = (pid, i, sched, time.time())
        if not running:
            continue
        ready, _, _ = select.select(list(running), [], [], 1.0)
        now = time.time()
        for fd in list(running):
            pid, i, sched, t0 = running[fd]
            if fd in ready:
                running.pop(fd)
                with os.fdopen(fd, "rb") as f:
                    data = f.read()
                os.waitpid(pid, 0)
                r = pickle.loads(data) if data else dict(status="crash", error="child died without result", claims=[], pending=[])
                _absorb(r, i, sched, configs, per_cfg, stats, all_claims, entered, samples, path_samples, jobs, inconclusive, harness_errors, verbose)
                solver_s += r.get("stats", {}).get("solver_s", 0.0)
            elif now - t0 > opts["path_wall_s"]:
                running.pop(fd)
                try:
                    os.kill(pid, signal.SIGKILL)
                except ProcessLookupError:
                    pass
                os.close(fd)
                os.waitpid(pid, 0)
                per_cfg[i]["paths"] += 1
                inconclusive.append(dict(cfg=configs[i], claim="<path>", why=f"path wall limit {opts['path_wall_s']}s"))
    for i, pcf in per_cfg.items():
        if pcf["budget_hit"]:
            inconclusive.append(dict(cfg=configs[i], claim="<paths>", why=f"path budget {opts['max_paths']} exhausted"))
    for i in range(len(configs)):
        if validate_only:
            break
        if per_cfg[i]["feasible"] == 0 and per_cfg[i]["unsupported"] == 0 and not per_cfg[i].get("skipped"):
            harness_errors.append(f"vacuous: no feasible path for cfg={cfg_key(configs[i])}")

    # ---------------- decide: replay sat claims on the plain import
    if verbose:
        print(f"[timing] exploration done at {time.time()-t_start:.1f}s")
    violations = []
    known_hits = collections.OrderedDict()
    replayed = 0
    sat_entries = [(i, sched, e) for (i, sched, e) in all_claims if e["verdict"] == "sat"]
    # replay at most one representative per (cfg, claim) pair -- further paths of the same pair are listed in evidence
    seen_pairs = {}
    for i, sched, e in sat_entries:
        seen_pairs.setdefault((i, e["name"]), []).append((sched, e))
    for (i, cname), lst in seen_pairs.items():
        sched, e = lst[0]
        if e.get("known"):
            f = next((f for f in findings_open if f["id"] == e["known"]), None)
            # a known finding must still reproduce on the plain code, otherwise it is stale (not an error)
            known_hits.setdefault(e["known"], dict(finding=f, count=0, cfgs=[]))
            known_hits[e["known"]]["count"] += len(lst)
            if len(known_hits[e["known"]]["cfgs"]) < 3:
                known_hits[e["known"]]["cfgs"].append(configs[i])
            continue
        reproduced = None
        other = None
        tried = []
        for (sched2, e2) in lst[:3]:
            for mv in e2["models"]:
                rp = plain.call(dict(cfg=configs[i], values=mv, seed=seed, warmup=e2.get("warmup")))
                replayed += 1
                ok = _replay_shows(rp, cname)
                tried.append(dict(values=mv, result=rp.get("status"), claims=[c for c in rp.get("claims", []) if not c[1]][:5], error=rp.get("error")))
                if ok:
                    reproduced = (mv, rp)
                    break
                if other is None and rp.get("status") == "ok":
                    # the concrete run violates a different claim of the same property: still a real counterexample
                    bad = [n for n, good in rp.get("claims", []) if not good and not any(fnmatch.fnmatch(n, f.get("claim", "*")) and _cfg_match(configs[i], f.get("config")) for f in findings_open)]
                    if bad:
                        other = (mv, rp, bad[0])
            if reproduced:
                break
        if not reproduced and other is not None:
            if (i, other[2]) in seen_pairs:
                continue  # that claim is decided (and replayed) on its own
            reproduced = (other[0], other[1])
            cname = other[2]
        if reproduced:
            mv, rp = reproduced
            rid = hashlib.sha256((cfg_key(configs[i]) + cname).encode()).hexdigest()[:10]
            rpath = os.path.join(VERIF, "replays", f"{prop}-{rid}.json")
            os.makedirs(os.path.dirname(rpath), exist_ok=True)
            json.dump(dict(property=prop, check=modname, cfg=configs[i], claim=cname, warmup=lst[0][1].get("warmup"), values=mv, values_float={k: _to_float(v) for k, v in mv.items()}, plain_result=rp, mutations=mutations, how="./check %s --replay %s" % (prop, rpath)), open(rpath, "w"), indent=1)
            violations.append(dict(cfg=configs[i], claim=cname, replay=rpath, values=mv))
        else:
            harness_errors.append(f"counterexample did not reproduce on the plain import: cfg={cfg_key(configs[i])} claim={cname} tried={json.dumps(tried)[:600]}")
    # a claim that is false in the concrete reference run of the plain import is a counterexample on the real
    # code as it stands (this also enforces claims that only the plain mode can evaluate, e.g. through real OpenCV)
    for i, cname, drawn, rp, sd in reference_failures:
        if any(v["cfg"] == configs[i] and v["claim"] == cname for v in violations):
            continue
        rid = hashlib.sha256((cfg_key(configs[i]) + cname + "ref").encode()).hexdigest()[:10]
        rpath = os.path.join(VERIF, "replays", f"{prop}-{rid}.json")
        os.makedirs(os.path.dirname(rpath), exist_ok=True)
        json.dump(dict(property=prop, check=modname, cfg=configs[i], claim=cname, values=drawn, values_float={k: _to_float(v) for k, v in drawn.items()}, plain_result=rp, mutations=mutations, seed=sd, how="./check %s --replay %s" % (prop, rpath)), open(rpath, "w"), indent=1)
        violations.append(dict(cfg=configs[i], claim=cname, replay=rpath, values=drawn))
    plain.close()

    # ---------------- report
    if verbose:
        print(f"[timing] replay done at {time.time()-t_start:.1f}s")
        slow = sorted(((e["solver_s"], e["name"], cfg_key(configs[i])) for i, _s, e in all_claims), reverse=True)[:12]
        for t_, n_, c_ in slow:
            print(f"[timing] {t_:8.2f}s {n_} {c_[:100]}")
    n_claims = len(all_claims)
    n_unsat = sum(1 for _, _, e in all_claims if e["verdict"] == "unsat")
    n_sat = sum(1 for _, _, e in all_claims if e["verdict"] == "sat")
    n_unknown = sum(1 for _, _, e in all_claims if e["verdict"] == "unknown")
    n_trivial = sum(1 for _, _, e in all_claims if e["trivial"])
    for _, _, e in all_claims:
        pass
    for i, sched, e in all_claims:
        if e["verdict"] == "unknown":
            inconclusive.append(dict(cfg=configs[i], claim=e["name"], why="solver unknown/timeout"))
    for inc in inconclusive[:40]:
        say(f"INCONCLUSIVE property={prop} claim={inc['claim']} cfg={cfg_key(inc['cfg'])[:160]} ({inc['why']})")
    if len(inconclusive) > 40:
        say(f"INCONCLUSIVE property={prop} ... {len(inconclusive) - 40} more")
    for fid, h in known_hits.items():
        f = h["finding"] or {}
        say(f"KNOWN-FINDING: property={prop} {fid}: {f.get('what', '')} [{h['count']} path(s), e.g. cfg={cfg_key(h['cfgs'][0])[:120]}]")
    for v in violations:
        say(f"VIOLATION property={prop} replay={v['replay']}")
        say(f"  claim={v['claim']} cfg={cfg_key(v['cfg'])[:200]}")
    for he in harness_errors[:30]:
        say(f"HARNESS-ERROR property={prop} {he[:900]}")

    distinct_nontrivial = len({(i, tuple(sched), e["name"]) for i, sched, e in all_claims if not e["trivial"]})
    funcs = [loader.FUNCS[k] for k in sorted(entered)]
    wall = time.time() - t_start
    import z3

    evidence = dict(
        property_id=prop,
        tier=tier,
        seed=int(seed),
        level="model_checking",
        wall_s=round(wall, 2),
        violations=len(violations),
        coverage=dict(
            states=int(stats["paths_feasible"]),
            transitions=int(max(1, stats["branches"])),
            traces_validated_against_impl=int(validated + replayed),
            samples=(path_samples[:3] + val_samples[:1]) or [dict(note="no path completed")],
            evaluations=int(n_claims),
            distinct_nontrivial=int(distinct_nontrivial),
            rule="one evaluation = one claim decided by z3 on one symbolic path of one configuration (query: path condition AND NOT claim); non-trivial = the claim did not simplify to True syntactically; distinct = distinct (configuration, path schedule, claim name)",
            obligations=int(n_claims),
            discharged=int(n_unsat),
            sat=int(n_sat),
            unknown=int(n_unknown),
            trivial=int(n_trivial),
            inconclusive=[dict(cfg=cfg_key(x["cfg"])[:200], claim=x["claim"], why=x["why"]) for x in inconclusive[:50]],
            n_inconclusive=len(inconclusive),
            configurations=len(configs),
            paths=dict(feasible=int(stats["paths_feasible"]), infeasible=int(stats["paths_infeasible"]), unsupported=int(stats["paths_unsupported"]), forks=int(stats["forks"]), branch_decisions=int(stats["branches"]), unknown_branches=int(stats["unknown_branches"]), path_condition_satisfiability_unknown=int(stats["paths_pc_unknown"])),
            solver=dict(queries=int(stats["queries"]), seconds=round(solver_s, 2), z3=z3.get_version_string()),
            functions_encoded=[f"{f['module']}:{f['qualname']}#{f['sha256'][:12]}" for f in funcs],
            n_functions_encoded=len(funcs),
            bounds=(mod.bounds(tier) if hasattr(mod, "bounds") else getattr(mod, "BOUNDS", "")),
            stubs=getattr(mod, "STUBS", []),
            outside=getattr(mod, "OUTSIDE", []),
            translator_validation=dict(configs=len(vidx), agreed=validated),
            replayed_counterexamples=replayed,
            known_findings=[dict(id=k, paths=h["count"]) for k, h in known_hits.items()],
            fixed_findings=[f["id"] for f in findings_fixed],
            sample_queries=samples[:2],
            harness_errors=harness_errors[:20],
            exhaustive=False,
            explanation="bounded symbolic execution of the real DarSIA functions (symx: z3 terms through numpy object arrays, AST-instrumented import regenerated from /repo/src on this run); every claim decided by z3 per path; counterexamples replayed on the plain import",
        ),
        assumptions=list(getattr(mod, "ASSUMPTIONS", [])) + [
            "exact real arithmetic instead of IEEE doubles (except dedicated FP lemmas)",
            "symbolic denominators are non-zero (documented preconditions: positive sizes/weights)",
            "engine shims for numpy are trusted after per-run translator validation",
        ],
    )
    if mutations:
        evidence["coverage"]["mutations"] = mutations
    return dict(evidence=evidence, violations=violations, harness_errors=harness_errors, known=known_hits, inconclusive=inconclusive, lines=out_lines, say=say)


def _to_float(v):
    try:
        if v in ("True", "False"):
            return v == "True"
        return float(Fraction(v))
    except Exception:  # noqa: BLE001
        return v


def _replay_shows(rp, cname):
    if cname.startswith("no_exception:"):
        return rp.get("status") == "exception" and rp.get("exc_type") == cname.split(":", 1)[1]
    if rp.get("status") not in ("ok", "exception"):
        return False
    for n, ok in rp.get("claims", []):
        if n == cname and not ok:
            return True
    return False


OBS_RTOL = [1e-9]


def _compare_validation(rc, rp):
    diffs = []
    if rc["status"] != rp.get("status"):
        return [f"status {rc['status']} ({rc.get('error')}) vs plain {rp.get('status')} ({rp.get('error')})"]
    if rc["status"] == "exception":
        if rc.get("exc_type") != rp.get("exc_type"):
            diffs.append(f"exception {rc.get('error')} vs {rp.get('error')}")
        return diffs
    cp = dict(tuple(c) for c in rp.get("claims", []))
    cc = dict(tuple(c) for c in rc["claims"])
    common = [n for n in cc if n in cp]
    bad = [(n, cc[n], cp[n]) for n in common if cc[n] != cp[n]]
    if bad:
        diffs.append(f"claims differ (name, instrumented, plain): {bad[:4]}")
    if not common and (cc or cp):
        diffs.append("no common claims between the instrumented and the plain run")
    oc, op = rc["observed"], rp.get("observed", {})
    for k in oc:
        if k not in op:
            diffs.append(f"observable {k} missing in plain")
            continue
        a, b = oc[k], op[k]
        if isinstance(a, list):
            if not isinstance(b, list) or len(a) != len(b) or any(not _close(x, y) for x, y in zip(a, b)):
                diffs.append(f"observable {k}: {str(a)[:80]} vs {str(b)[:80]}")
        elif isinstance(a, (int, float)) and not isinstance(a, bool) and isinstance(b, (int, float)):
            if not _close(a, b):
                diffs.append(f"observable {k}: {a} vs {b}")
        elif a != b:
            diffs.append(f"observable {k}: {a} vs {b}")
    return diffs


def _close(x, y):
    if isinstance(x, bool) or isinstance(y, bool):
        return bool(x) == bool(y)
    try:
        return abs(x - y) <= OBS_RTOL[0] * max(1.0, abs(x), abs(y))
    except TypeError:
        return x == y


def _absorb(r, i, sched, configs, per_cfg, stats, all_claims, entered, samples, path_samples, jobs, inconclusive, harness_errors, verbose):
    pcf = per_cfg[i]
    pcf["paths"] += 1
    st = r.get("stats", {})
    if verbose and st.get("wall", 0) > 5:
        print(f"[slow path] {st.get('wall'):.1f}s cfg={cfg_key(configs[i])[:160]} schedule={r.get('schedule')} status={r['status']} pc_sat={r.get('pc_sat')} solver_s={st.get('solver_s', 0):.1f} claims={[(e['name'][:40], e['verdict'], round(e['solver_s'], 1)) for e in r.get('claims', []) if e['solver_s'] > 1]}", flush=True)
    for k in ("queries", "forks", "branches", "unknown_branches"):
        stats[k] += st.get(k, 0)
    for p in r.get("pending", []):
        jobs.append((i, p))
    entered.update(r.get("entered", []))
    status = r["status"]
    if status == "infeasible":
        pcf["infeasible"] += 1
        stats["paths_infeasible"] += 1
        return
    if status == "skipped":
        pcf["skipped"] = True
        return
    if status in ("unsupported", "crash"):
        pcf["unsupported"] += 1
        stats["paths_unsupported"] += 1
        inconclusive.append(dict(cfg=configs[i], claim="<path>", why=f"{status}: {r.get('error')}"))
        if verbose and r.get("trace"):
            print(r["trace"])
        return
    pcf["feasible"] += 1
    stats["paths_feasible"] += 1
    if r.get("pc_sat") == "unknown":
        stats["paths_pc_unknown"] += 1
    if status == "exception" and verbose:
        print(r.get("trace"))
    for e in r["claims"]:
        if status == "exception":
            e["error"] = r.get("error")
        e["warmup"] = r.get("warmup")
        all_claims.append((i, r.get("schedule", sched), e))
    if any(e["verdict"] == "sat" and not e.get("known") for e in r["claims"]):
        pcf["sat_paths"] = pcf.get("sat_paths", 0) + 1
    for smp in r.get("samples", []):
        if len(samples) < 2:
            samples.append(dict(cfg=configs[i], claim=smp["claim"], smt2=smp["smt2"][:6000]))
    if len(path_samples) < 3 and r["claims"]:
        path_samples.append(dict(cfg=configs[i], schedule=r.get("schedule", sched), claims=[dict(name=e["name"], verdict=e["verdict"], solver_s=round(e["solver_s"], 4)) for e in r["claims"][:8]], witness_inputs={k: v for k, v in list((r.get("witness") or {}).items())[:8]}))


def replay_file(path):
    d = json.load(open(path))
    modname = d["check"]
    pool = PlainPool(f"checks.{modname}", 1, d.get("mutations"))
    rp = pool.call(dict(cfg=d["cfg"], values=d["values"], seed=d.get("seed", 0), warmup=d.get("warmup")))
    pool.close()
    print(json.dumps(rp, indent=1)[:4000])
    if _replay_shows(rp, d["claim"]):
        print(f"VIOLATION property={d['property']} replay={path}")
        return 1
    print("replay: claim holds on the current tree")
    return 0


def main(argv=None):
    ap = argparse.ArgumentParser()
    ap.add_argument("check")
    ap.add_argument("--tier", default=os.environ.get("VERIF_TIER", "quick"))
    ap.add_argument("--seed", type=int, default=int(os.environ.get("VERIF_SEED", "0")))
    ap.add_argument("--only", default=None)
    ap.add_argument("--replay", default=None)
    ap.add_argument("--mutations", default=None, help="json: {module: [[old, new], ...]} applied in memory (self-test)")
    ap.add_argument("--no-evidence", action="store_true")
    ap.add_argument("--no-canaries", action="store_true")
    ap.add_argument("-v", "--verbose", action="store_true")
    ap.add_argument("--validate-only", action="store_true", help="only the translator validation phase (seed sweeps)")
    a = ap.parse_args(argv)
    modname = a.check.lower()
    if a.replay:
        return replay_file(a.replay)
    mutations = json.loads(a.mutations) if a.mutations else None
    res = run_check(modname, a.tier, a.seed, only=a.only, mutations=mutations, verbose=a.verbose, validate_only=a.validate_only)
    ev = res["evidence"]
    premod = importlib.import_module(f"checks.{modname}")
    # canary mutants: self-test of the check's sensitivity (thorough tier, informational)
    if a.tier == "thorough" and not a.no_canaries and not mutations and hasattr(premod, "CANARIES") and not a.only:
        ev["coverage"]["canaries"] = run_canaries(modname, premod.CANARIES)
        for c in ev["coverage"]["canaries"]:
            print(f"[{ev['property_id']}] canary {c['name']}: {'detected' if c['detected'] else 'MISSED'} ({c['exit']})")
    ev["wall_s"] = round(ev["wall_s"], 2)
    if not a.no_evidence and not mutations and not a.only and not a.validate_only:
        os.makedirs(os.path.join(VERIF, "evidence"), exist_ok=True)
        json.dump(ev, open(os.path.join(VERIF, "evidence", f"{ev['property_id']}.json"), "w"), indent=1)
    c = ev["coverage"]
    print(
        f"[{ev['property_id']}] claims={c['obligations']} unsat={c['discharged']} sat={c['sat']} unknown={c['unknown']} "
        f"paths={c['paths']['feasible']} queries={c['solver']['queries']} solver_s={c['solver']['seconds']} wall={ev['wall_s']}s",
        flush=True,
    )
    if res["violations"]:
        return 1
    if res["harness_errors"]:
        return HARNESS_ERROR
    return 0


def run_canaries(modname, canaries):
    out = []
    procs = []
    for c in canaries:
        cmd = [sys.executable, "-m", "symx.runner", modname, "--tier", "quick", "--no-evidence", "--mutations", json.dumps(c["mutations"])]
        if c.get("only"):
            cmd += ["--only", c["only"]]
        env = dict(os.environ)
        env["PYTHONPATH"] = VERIF
        procs.append((c, subprocess.Popen(cmd, cwd=VERIF, env=env, stdout=subprocess.PIPE, stderr=subprocess.STDOUT, text=True)))
    for c, p in procs:
        try:
            txt, _ = p.communicate(timeout=1800)
        except subprocess.TimeoutExpired:
            p.kill()
            txt = "timeout"
        detected = p.returncode == 1 and "VIOLATION" in txt
        out.append(dict(name=c["name"], detected=bool(detected), exit=p.returncode, claims=sorted({ln.split("claim=")[1].split(" ")[0] for ln in txt.splitlines() if ln.strip().startswith("claim=")})[:6]))
    return out


if __name__ == "__main__":
    sys.exit(main())
