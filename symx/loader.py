"""Import hook: compiles every darsia.* module from /repo/src through an AST rewriter.

Nothing is read from or written to .pyc files; the encoding is regenerated from the
current source on every run.  The rewrite is the identity on concrete values.
"""
from __future__ import annotations

import ast
import hashlib
import importlib.abc
import importlib.machinery
import math as _math
import sys
from fractions import Fraction

import numpy as _np

from . import npx

FUNCS = []  # id -> dict(module, qualname, sha256, lineno)
ENTERED = set()
CONFIG = {
    "exact_literal_modules": set(),
    "mutations": {},  # module name -> list of (old, new) source replacements (canary self-test)
    "installed": False,
}


def sx_enter(i):
    ENTERED.add(i)


def sx_print(*a, **k):
    if not npx.ENGINE.active and not CONFIG.get("quiet"):
        print(*a, **k)


def _sx(attr):
    return ast.Attribute(value=ast.Name(id="__sx__", ctx=ast.Load()), attr=attr, ctx=ast.Load())


class Rewriter(ast.NodeTransformer):
    def __init__(self, src, modname, lits):
        self.src = src
        self.modname = modname
        self.lits = lits
        self.scope = []

    # -- do not touch annotations
    def visit_arg(self, node):
        return node

    def visit_AnnAssign(self, node):
        if node.value is not None:
            node.value = self.visit(node.value)
        node.target = self.visit(node.target)
        return node

    def visit_ClassDef(self, node):
        self.scope.append(node.name)
        self.generic_visit(node)
        self.scope.pop()
        return node

    def _visit_func(self, node):
        self.scope.append(node.name)
        seg = ast.get_source_segment(self.src, node) or ""
        fid = len(FUNCS)
        FUNCS.append(
            dict(
                module=self.modname,
                qualname=".".join(self.scope),
                sha256=hashlib.sha256(seg.encode()).hexdigest(),
                lineno=node.lineno,
            )
        )
        returns = node.returns
        node.returns = None
        self.generic_visit(node)
        node.returns = returns
        self.scope.pop()
        new = []
        for d in node.decorator_list:
            txt = ast.unparse(d)
            if txt.startswith(("numba.", "njit", "jit", "nb.")):
                if isinstance(d, ast.Call):
                    d = ast.copy_location(ast.Call(func=_sx("sx_jit"), args=[], keywords=[]), d)
                else:
                    d = ast.copy_location(_sx("sx_jit"), d)
            new.append(d)
        node.decorator_list = new
        enter = ast.Expr(value=ast.Call(func=_sx("sx_enter"), args=[ast.Constant(fid)], keywords=[]))
        body = node.body
        pos = 0
        if body and isinstance(body[0], ast.Expr) and isinstance(body[0].value, ast.Constant) and isinstance(body[0].value.value, str):
            pos = 1
        ast.copy_location(enter, body[0])
        body.insert(pos, enter)
        return node

    visit_FunctionDef = _visit_func
    visit_AsyncFunctionDef = _visit_func

    def visit_Constant(self, node):
        if self.lits and isinstance(node.value, float):
            text = ast.get_source_segment(self.src, node)
            try:
                Fraction(text)
            except Exception:
                return node
            return ast.copy_location(
                ast.Call(func=_sx("sx_lit"), args=[ast.Constant(node.value), ast.Constant(text)], keywords=[]), node
            )
        return node

    def visit_Call(self, node):
        self.generic_visit(node)
        f = node.func
        if isinstance(f, ast.Attribute) and f.attr == "astype":
            return ast.copy_location(ast.Call(func=_sx("sx_astype"), args=[f.value] + node.args, keywords=node.keywords), node)
        if isinstance(f, ast.Name) and f.id in ("isinstance", "int", "float", "bool", "min", "max", "print"):
            return ast.copy_location(ast.Call(func=_sx("sx_" + f.id), args=node.args, keywords=node.keywords), node)
        return node

    @staticmethod
    def _key(sl):
        if isinstance(sl, ast.Slice):
            n = lambda v: v if v is not None else ast.Constant(None)  # noqa: E731
            return ast.Call(func=ast.Name(id="slice", ctx=ast.Load()), args=[n(sl.lower), n(sl.upper), n(sl.step)], keywords=[])
        if isinstance(sl, ast.Tuple):
            return ast.Tuple(elts=[Rewriter._key(e) for e in sl.elts], ctx=ast.Load())
        return sl

    @staticmethod
    def _starred(sl):
        return any(isinstance(e, ast.Starred) for e in (sl.elts if isinstance(sl, ast.Tuple) else []))

    def visit_Subscript(self, node):
        self.generic_visit(node)
        if isinstance(node.ctx, ast.Load) and not self._starred(node.slice):
            return ast.copy_location(ast.Call(func=_sx("sx_getitem"), args=[node.value, self._key(node.slice)], keywords=[]), node)
        return node

    def visit_Assign(self, node):
        self.generic_visit(node)
        if len(node.targets) == 1 and isinstance(node.targets[0], ast.Subscript) and not self._starred(node.targets[0].slice):
            t = node.targets[0]
            return ast.copy_location(
                ast.Expr(value=ast.Call(func=_sx("sx_setitem"), args=[t.value, self._key(t.slice), node.value], keywords=[])), node
            )
        return node

    def visit_AugAssign(self, node):
        self.generic_visit(node)
        if isinstance(node.target, ast.Subscript) and not self._starred(node.target.slice):
            t = node.target
            get = ast.Call(func=_sx("sx_getitem"), args=[t.value, self._key(t.slice)], keywords=[])
            val = ast.BinOp(left=get, op=node.op, right=node.value)
            return ast.copy_location(
                ast.Expr(value=ast.Call(func=_sx("sx_setitem"), args=[t.value, self._key(t.slice), val], keywords=[])), node
            )
        return node

    def visit_Attribute(self, node):
        self.generic_visit(node)
        if node.attr == "dtype" and isinstance(node.ctx, ast.Load):
            return ast.copy_location(ast.Call(func=_sx("sx_dtype"), args=[node.value], keywords=[]), node)
        return node

    def visit_BinOp(self, node):
        self.generic_visit(node)
        if isinstance(node.op, ast.Div):
            return ast.copy_location(ast.Call(func=_sx("sx_div"), args=[node.left, node.right], keywords=[]), node)
        return node

    def visit_Compare(self, node):
        self.generic_visit(node)
        ops = {ast.Lt: "lt", ast.LtE: "le", ast.Gt: "gt", ast.GtE: "ge", ast.Eq: "eq", ast.NotEq: "ne"}
        if len(node.ops) == 1 and type(node.ops[0]) in ops:
            return ast.copy_location(
                ast.Call(func=_sx("sx_cmp"), args=[ast.Constant(ops[type(node.ops[0])]), node.left, node.comparators[0]], keywords=[]), node
            )
        return node


class _SX:
    """namespace bound as __sx__ in every instrumented module"""

    sx_enter = staticmethod(sx_enter)
    sx_print = staticmethod(sx_print)
    sx_astype = staticmethod(npx.sx_astype)
    sx_isinstance = staticmethod(npx.sx_isinstance)
    sx_int = staticmethod(npx.sx_int)
    sx_float = staticmethod(npx.sx_float)
    sx_bool = staticmethod(npx.sx_bool)
    sx_min = staticmethod(npx.sx_min)
    sx_max = staticmethod(npx.sx_max)
    sx_cmp = staticmethod(npx.sx_cmp)
    sx_getitem = staticmethod(npx.sx_getitem)
    sx_setitem = staticmethod(npx.sx_setitem)
    sx_dtype = staticmethod(npx.sx_dtype)
    sx_jit = staticmethod(npx.sx_jit)
    sx_lit = staticmethod(npx.sx_lit)
    sx_div = staticmethod(npx.sx_div)


SX = _SX()


def _rebind(module):
    from . import sparse

    import scipy.sparse as _sps

    d = module.__dict__
    for name, val in list(d.items()):
        if val is _np:
            d[name] = npx.NP
        elif val is _math:
            d[name] = npx.MATH
        elif val is _sps:
            d[name] = sparse.SPS


class Loader(importlib.machinery.SourceFileLoader):
    def get_code(self, fullname):
        path = self.get_filename(fullname)
        src = self.get_data(path)
        return self.source_to_code(src, path, fullname=fullname)

    def source_to_code(self, data, path, *, _optimize=-1, fullname=None):
        text = data.decode() if isinstance(data, bytes) else data
        fullname = fullname or self.name
        for old, new in CONFIG["mutations"].get(fullname, []):
            if old not in text:
                raise RuntimeError(f"canary mutation does not apply to {fullname}: {old!r}")
            text = text.replace(old, new, 1)
        tree = ast.parse(text, filename=path)
        rw = Rewriter(text, fullname, fullname in CONFIG["exact_literal_modules"])
        tree = rw.visit(tree)
        ast.fix_missing_locations(tree)
        return compile(tree, path, "exec", dont_inherit=True, optimize=_optimize)

    def exec_module(self, module):
        module.__dict__["__sx__"] = SX
        super().exec_module(module)
        _rebind(module)


class Finder(importlib.abc.MetaPathFinder):
    def find_spec(self, fullname, path, target=None):
        if fullname != "darsia" and not fullname.startswith("darsia."):
            return None
        spec = importlib.machinery.PathFinder.find_spec(fullname, path)
        if spec is None or not isinstance(spec.loader, importlib.machinery.SourceFileLoader):
            return spec
        spec.loader = Loader(spec.loader.name, spec.loader.path)
        return spec


def install(exact_literal_modules=(), mutations=None):
    if CONFIG["installed"]:
        raise RuntimeError("symx loader already installed")
    if "darsia" in sys.modules:
        raise RuntimeError("darsia imported before the symx hook was installed")
    CONFIG["exact_literal_modules"] = set(exact_literal_modules)
    CONFIG["mutations"] = dict(mutations or {})
    CONFIG["installed"] = True
    sys.dont_write_bytecode = True
    sys.meta_path.insert(0, Finder())


def rebind_late(module):
    """re-run the proxy rebinding for a module whose globals were assigned after exec"""
    _rebind(module)
