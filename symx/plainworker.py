"""Plain-import worker: runs harness bodies against the *un-instrumented* darsia.

Reads one JSON request per line on stdin ({cfg, values, seed}), forks a child per request
(so module-level state never leaks between requests -- "fresh interpreter" for C16),
answers one JSON line on the original stdout.  Prints of the code under test go to stderr.
"""
from __future__ import annotations

import importlib
import importlib.abc
import importlib.machinery
import json
import os
import pickle
import sys
import traceback
import warnings


def _install_mutations(mutations):
    class L(importlib.machinery.SourceFileLoader):
        def get_code(self, fullname):
            path = self.get_filename(fullname)
            text = self.get_data(path).decode()
            for old, new in mutations.get(fullname, []):
                if old not in text:
                    raise RuntimeError(f"mutation does not apply to {fullname}")
                text = text.replace(old, new, 1)
            return compile(text, path, "exec", dont_inherit=True)

    class F(importlib.abc.MetaPathFinder):
        def find_spec(self, fullname, path, target=None):
            if fullname not in mutations:
                return None
            spec = importlib.machinery.PathFinder.find_spec(fullname, path)
            if spec is None:
                return None
            spec.loader = L(spec.loader.name, spec.loader.path)
            return spec

    sys.dont_write_bytecode = True
    sys.meta_path.insert(0, F())


def run_one(mod, req):
    from . import api

    res = dict(status="ok", claims=[], observed={}, error=None)
    w = req.get("warmup")
    if w and w.get("values") is not None:
        # the symbolic path ran in a "used process": repeat its warm-up run (same inputs) before the replay
        api.reset("plain", values=w["values"], seed=4242)
        try:
            if hasattr(mod, "prepare"):
                mod.prepare(w["cfg"])
            mod.body(w["cfg"])
        except BaseException:  # noqa: BLE001
            pass
    api.reset("plain", values=req.get("values"), seed=req.get("seed", 0))
    try:
        if hasattr(mod, "prepare"):
            mod.prepare(req["cfg"])
        mod.body(req["cfg"])
    except api.AssumeFailed:
        res["status"] = "assume_failed"
    except api.HarnessSkip as e:
        res["status"] = "skipped"
        res["error"] = str(e)
    except Exception as e:  # noqa: BLE001
        res["status"] = "exception"
        res["error"] = f"{type(e).__name__}: {e}"
        res["exc_type"] = type(e).__name__
        res["trace"] = traceback.format_exc(limit=12)
    res["claims"] = [(n, bool(c)) for n, c in api.ST.claims]
    res["observed"] = api.ST.observed
    return res


def main():
    out = os.fdopen(os.dup(1), "w")
    os.dup2(2, 1)
    sys.stdout = sys.stderr
    modname = sys.argv[1]
    if "--mutations" in sys.argv:
        _install_mutations({k: [tuple(x) for x in v] for k, v in json.loads(sys.argv[sys.argv.index("--mutations") + 1]).items()})
    warnings.simplefilter("ignore")
    import darsia  # noqa: F401  plain import

    mod = importlib.import_module(modname)
    for line in sys.stdin:
        line = line.strip()
        if not line:
            continue
        req = json.loads(line)
        r, w = os.pipe()
        pid = os.fork()
        if pid == 0:
            os.close(r)
            try:
                try:
                    res = run_one(mod, req)
                except BaseException as e:  # noqa: BLE001
                    res = dict(status="crash", error=f"{type(e).__name__}: {e}", claims=[], observed={}, trace=traceback.format_exc(limit=10))
                with os.fdopen(w, "wb") as f:
                    f.write(pickle.dumps(res))
            finally:
                os._exit(0)
        os.close(w)
        with os.fdopen(r, "rb") as f:
            data = f.read()
        os.waitpid(pid, 0)
        res = pickle.loads(data) if data else dict(status="crash", error="no result", claims=[], observed={})
        out.write(json.dumps(res, default=str) + "\n")
        out.flush()


if __name__ == "__main__":
    main()
