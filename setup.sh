#!/bin/sh
# Builds the overlay venv (/venv's packages + z3-solver + crosshair-tool from the offline wheelhouse).
set -e
here="$(cd "$(dirname "$0")" && pwd)"
if [ ! -x "$here/.venv/bin/python" ] || ! "$here/.venv/bin/python" -c "import z3, crosshair" 2>/dev/null; then
  rm -rf "$here/.venv"
  /venv/bin/python -m venv "$here/.venv"
  sp="$("$here/.venv/bin/python" -c 'import sysconfig; print(sysconfig.get_paths()["purelib"])')"
  echo "import site; site.addsitedir('/venv/lib/python3.12/site-packages')" > "$sp/_overlay.pth"
  PIP_NO_INDEX=1 "$here/.venv/bin/pip" install -q --no-index --find-links /opt/veriftools/wheels z3-solver crosshair-tool
fi
"$here/.venv/bin/python" -c "import z3, crosshair, darsia" 
echo "setup ok"
