"""C02 -- extracted sub-images keep their data and their physical placement.

Real code executed symbolically: Image.subregion / time_slice / time_interval / append /
metadata / __init__ / set_time, arithmetics.stack, CoordinateSystem.*.
Symbolic: every voxel value (a distinct real), dimensions, origin, relative times, append
offsets, ROI bounds and corner points (integers / reals; concretised by solver-guided case
split at the moment numpy slices with them), the probe voxel.
"""
import copy
import itertools
from datetime import datetime, timedelta

import numpy as np

from symx import api as S
from . import oracles as O

PROPERTY = "C02"
OPTIONS = dict(validate=10, query_timeout_ms=60000, max_paths=3000, warmup="first")
STUBS = []
OUTSIDE = ["stack() of undated images with relative times (stack has no offset argument; times are recomputed from dates)", "IEEE rounding in physical-corner conversion"]
ASSUMPTIONS = ["dates are concrete datetimes; relative times are symbolic reals", "ROI corner points up to one voxel outside the image (clipped)"]

STEPS = ["sub_slices", "sub_voxels", "sub_coords", "time_slice", "time_interval"]
BASE = datetime(2024, 3, 1, 12, 0, 0)


def bounds(tier):
    if tier == "quick":
        return "1-step programs on 3x3, 3x2, 2x2x2 (scalar/vector, single/series of 3 with dates, relative times or neither); all 2-step programs on 2x2 and 2x1x2; ROI bounds symbolic (all non-empty ranges, open ends, corners up to one voxel outside, concretised by solver-guided case split); stack/append of 2..3 images"
    return "1-step programs up to 4x4 / 3x2x3 with series of 4; all 2-step spatial programs on 3x2, 2x2x2, 2x2, 2x1x2 and all 2-step series programs on 3x2, 2x2, 2x1x2; every 8th 3-step program and two 4-step programs on 2x2; stack/append of 2..5 images"


def configs(tier):
    out = []
    quick = tier == "quick"
    spatial = STEPS[:3]
    temporal = STEPS[3:]

    def ext(g, vector, T, timeinfo, prog):
        out.append(dict(kind="extract", **g, vector=vector, series=T, timeinfo=timeinfo, prog=list(prog)))

    big = [dict(dim=2, shape=[3, 3]), dict(dim=2, shape=[3, 2]), dict(dim=3, shape=[2, 2, 2])]
    tiny = [dict(dim=2, shape=[2, 2]), dict(dim=3, shape=[2, 1, 2])]
    two_sp = [[a, b] for a in spatial for b in spatial]
    two_series = [[a, b] for a in STEPS for b in STEPS if not (a == "time_slice" and b in temporal)]
    if quick:
        # one-step programs at the sizes where every range / clipping case exists
        for g in big:
            for p in spatial:
                ext(g, False, 0, "none", [p])
            for timeinfo, vector in (("dates", False), ("times", True)):
                for p in STEPS:
                    if p in spatial and g["shape"] != [3, 3] and vector:
                        continue
                    ext(g, vector, 3, timeinfo, [p])
        ext(big[0], False, 3, "none", ["time_interval"])
        for p in temporal:
            ext(big[1], False, 3, "dates_and_times", [p])
        ext(tiny[0], False, 3, "dates_and_times", ["time_interval", "time_slice"])
        ext(big[0], True, 0, "none", ["sub_coords"])
        # two-step programs on the smallest grids
        for g in tiny:
            for p in two_sp:
                ext(g, False, 0, "none", p)
            for p in two_series:
                if p[0] in spatial and p[1] in spatial:
                    continue
                ext(g, g["dim"] == 3, 3, "dates" if g["dim"] == 2 else "times", p)
    else:
        # sized by path counts (one path per distinct ROI case): ~25 paths/s on 16 cores
        geoms = big + [dict(dim=2, shape=[4, 4]), dict(dim=2, shape=[1, 4]), dict(dim=3, shape=[3, 2, 3])]
        for g in geoms:
            for vector in (False, True):
                if vector and g["shape"] in ([4, 4], [3, 2, 3]):
                    continue
                for p in spatial:
                    ext(g, vector, 0, "none", [p])
                for timeinfo in ("dates", "times", "none"):
                    for p in STEPS:
                        if p in spatial and (timeinfo != "dates" or g["shape"] in ([4, 4], [3, 2, 3])):
                            continue
                        ext(g, vector, 4, timeinfo, [p])
        # all two-step programs: spatial pairs on 3x2 and 2x2x2 (besides the tiny grids), series programs on 3x2
        for g in (big[1], big[2]) + tuple(tiny):
            for p in two_sp:
                ext(g, False, 0, "none", p)
        for g in (big[1],) + tuple(tiny):
            for timeinfo, vector in (("dates", False), ("times", True)):
                for p in two_series:
                    if p[0] in spatial and p[1] in spatial:
                        continue
                    ext(g, vector, 3, timeinfo, p)
        for g in (big[1], tiny[0]):
            for p in two_series:
                ext(g, False, 3, "dates_and_times", p)
        # every 8th three-step program on 2x2, four 4-step programs with two temporal steps on 2x2
        three = [list(p) for p in itertools.product(STEPS, repeat=3) if not any(p[i] == "time_slice" and p[j] in temporal for i in range(3) for j in range(i + 1, 3))]
        for p in three[::8]:
            ext(tiny[0], False, 3, "dates", p)
        for p in (["time_interval", "sub_slices", "time_slice", "sub_voxels"], ["time_interval", "sub_coords", "time_interval", "sub_slices"]):
            ext(tiny[0], False, 4, "times", p)
    # series assembly
    for g in (big[:2] + tiny[1:] if quick else big + tiny):
        for vector in (False, True):
            for how in ("stack", "append"):
                for timeinfo in ("dates_shared_ref", "dates", "times", "none"):
                    for n in ((2, 3) if quick else (2, 3, 4, 5)):
                        if quick and (vector and n == 3):
                            continue
                        out.append(dict(kind="assemble", **g, vector=vector, how=how, timeinfo=timeinfo, n=n))
    return out


# ----------------------------------------------------------------------------------


def _mk_root(darsia, cfg):
    dim, shape = cfg["dim"], tuple(cfg["shape"])
    T = cfg["series"]
    full = shape + ((T,) if T else ()) + ((2,) if cfg["vector"] else ())
    A = S.array("a", full, lo=-100, hi=100)
    dims = [S.real(f"d{m}", lo="1/10000", hi=10000) for m in range(dim)]
    org = [S.real(f"o{a}", lo=-1000, hi=1000) for a in range(dim)]
    kw = dict(dimensions=list(dims), origin=list(org), space_dim=dim, scalar=not cfg["vector"], series=bool(T))
    times = dates = None
    if T:
        if cfg["timeinfo"] == "dates":
            dates = [BASE + timedelta(days=i, hours=3 * i + i * i, microseconds=125000 * i) for i in range(T)]
            kw["date"] = list(dates)
            times = [(d - dates[0]).total_seconds() for d in dates]
        elif cfg["timeinfo"] == "times":
            times = [S.real(f"t{i}", lo=-1000, hi=1000) for i in range(T)]
            kw["time"] = list(times)
            dates = [None] * T
        elif cfg["timeinfo"] == "dates_and_times":
            # both given, and the relative times are NOT what the dates imply (e.g. hours, or an offset)
            dates = [BASE + timedelta(hours=3 * i + i * i) for i in range(T)]
            times = [S.real(f"t{i}", lo=-1000, hi=1000) for i in range(T)]
            kw["date"] = list(dates)
            kw["time"] = list(times)
        else:
            dates = [None] * T
            times = [None] * T
    img = darsia.Image(A.copy(), **kw)
    return img, A, dims, org, dates, times


def _eq_opt(a, b):
    """equality where None must match None"""
    if a is None or b is None:
        return a is None and b is None
    return S.eq(a, b)


def _check(darsia, cfg, root, A, dims, org, dates, times, cur, st, tag):
    dim, shape = cfg["dim"], tuple(cfg["shape"])
    orient = O.ORIENT[dim]
    h = [dims[m] / shape[m] for m in range(dim)]
    off, ext = st["off"], st["ext"]
    block = A[tuple(slice(off[m], off[m] + ext[m]) for m in range(dim))]
    T = cfg["series"]
    if T:
        if st["series"]:
            block = block[(Ellipsis, st["tsel"]) + ((slice(None),) if cfg["vector"] else ())]
        else:
            block = block[(Ellipsis, st["tsel"][0]) + ((slice(None),) if cfg["vector"] else ())]
    S.claim(f"{tag}:data_is_the_parent_block", S.and_(tuple(cur.img.shape) == tuple(block.shape), S.eq(cur.img, block) if tuple(cur.img.shape) == tuple(block.shape) else False))
    # placement
    exp_org = [0] * dim
    for m in range(dim):
        a, sg = orient[m]
        exp_org[a] = org[a] + sg * off[m] * h[m]
    S.claim(f"{tag}:origin_is_coordinate_of_first_voxel", S.eq(list(cur.origin), exp_org))
    S.claim(f"{tag}:voxel_size_unchanged", S.eq(cur.voxel_size, h))
    S.claim(f"{tag}:dimensions_are_extent_times_voxel_size", S.eq(list(cur.dimensions), [ext[m] * h[m] for m in range(dim)]))
    v = [S.integer(f"{tag}_pv{m}", -6, 6) for m in range(dim)]
    S.claim(f"{tag}:every_voxel_keeps_its_physical_coordinate", S.eq(list(cur.coordinatesystem.coordinate(list(v))), list(root.coordinatesystem.coordinate([v[m] + off[m] for m in range(dim)]))))
    # layout
    S.claim(f"{tag}:payload_layout", cur.space_dim == dim and bool(cur.scalar) == (not cfg["vector"]) and bool(cur.series) == bool(st["series"]) and type(cur) is type(root) and cur.indexing == root.indexing)
    # time stamps
    if T:
        if st["series"]:
            ok = isinstance(cur.date, list) and isinstance(cur.time, list) and len(cur.date) == len(st["tsel"]) and len(cur.time) == len(st["tsel"]) and cur.time_num == len(st["tsel"])
            S.claim(f"{tag}:time_axis_length", ok)
            if ok:
                S.claim(f"{tag}:dates_and_times_of_slices", S.and_([cur.date[i] == dates[k] for i, k in enumerate(st["tsel"])] + [_eq_opt(cur.time[i], times[k]) for i, k in enumerate(st["tsel"])]))
        else:
            k = st["tsel"][0]
            S.claim(f"{tag}:date_and_time_of_slice", S.and_(cur.date == dates[k], _eq_opt(cur.time, times[k])))
    S.observe(f"{tag}:img", cur.img)
    S.observe(f"{tag}:origin", list(cur.origin))


def _spatial_step(darsia, cfg, cur, st, kind, k, root, dims):
    dim = cfg["dim"]
    ext = st["ext"]
    if kind == "sub_slices":
        lo = [S.integer(f"s{k}_lo{m}", 0, ext[m] - 1) for m in range(dim)]
        hi = [S.integer(f"s{k}_hi{m}", 1, ext[m]) for m in range(dim)]
        pat = S.integer(f"s{k}_open", 0, 3)
        open_lo = bool(S.or_(S.eq(pat, 1), S.eq(pat, 3)) if S.symbolic() else pat in (1, 3))
        open_hi = bool(S.or_(S.eq(pat, 2), S.eq(pat, 3)) if S.symbolic() else pat in (2, 3))
        for m in range(dim):
            S.assume(S.lt(lo[m], hi[m]))
            if open_lo:
                S.assume(S.eq(lo[m], 0))
            if open_hi:
                S.assume(S.eq(hi[m], ext[m]))
        roi = tuple(slice(None if open_lo else lo[m], None if open_hi else hi[m]) for m in range(dim))
        new = cur.subregion(roi)
        start, stop = lo, hi
    else:
        p = [S.integer(f"s{k}_p{m}", -1, ext[m] + 1) for m in range(dim)]
        q = [S.integer(f"s{k}_q{m}", -1, ext[m] + 1) for m in range(dim)]
        start = [S.max_(0, S.min_(p[m], q[m])) for m in range(dim)]
        stop = [S.min_(S.max_(p[m], q[m]), ext[m]) for m in range(dim)]
        for m in range(dim):
            S.assume(S.lt(start[m], stop[m]))
        if kind == "sub_voxels":
            roi = darsia.VoxelArray([list(p), list(q)] if S.instrumented() else np.array([p, q]))
            new = cur.subregion(roi)
            # the region of interest belongs to the caller (it may be applied to another image next)
            S.claim(f"step{k}:voxel_roi_of_the_caller_is_left_as_it_was", S.and_(S.eq(list(np.asarray(roi)[0]), p), S.eq(list(np.asarray(roi)[1]), q)))
        else:
            # physical corner points strictly inside the corner voxels p and q
            tp = [S.real(f"s{k}_tp{m}", lo="1/1000", hi="999/1000") for m in range(dim)]
            tq = [S.real(f"s{k}_tq{m}", lo="1/1000", hi="999/1000") for m in range(dim)]
            cs = cur.coordinatesystem
            cp = cs.coordinate(np.array([p[m] + tp[m] for m in range(dim)], dtype=object if S.instrumented() else float))
            cq = cs.coordinate(np.array([q[m] + tq[m] for m in range(dim)], dtype=object if S.instrumented() else float))
            roi = darsia.make_coordinate([list(cp), list(cq)])
            new = cur.subregion(roi)
            S.claim(f"step{k}:coordinate_roi_of_the_caller_is_left_as_it_was", S.and_(S.eq(list(np.asarray(roi)[0]), list(cp)), S.eq(list(np.asarray(roi)[1]), list(cq))))
            # the physical box selects what the voxel box of the converted corners selects
            vox = cs.voxel(roi)
            twin = cur.subregion(darsia.make_voxel(np.asarray(vox)))
            same = tuple(new.img.shape) == tuple(twin.img.shape)
            S.claim(f"step{k}:physical_box_equals_voxel_box_of_converted_corners", S.and_(same, S.eq(new.img, twin.img) if same else False, S.eq(list(new.origin), list(twin.origin)), S.eq(list(new.dimensions), list(twin.dimensions))))
            S.claim(f"step{k}:corner_points_convert_to_their_voxels", S.and_(S.eq(list(np.asarray(vox)[0]), p), S.eq(list(np.asarray(vox)[1]), q)))
    # concrete values of the range (numpy already sliced with them)
    shp = new.img.shape[:dim]
    cstart = []
    for m in range(dim):
        if S.symbolic():
            from symx.core import ENGINE, term

            cstart.append(ENGINE.concretize_int(term(start[m])))
        else:
            cstart.append(int(S.tofloat(start[m])))
    st2 = dict(st)
    st2["off"] = [st["off"][m] + cstart[m] for m in range(dim)]
    st2["ext"] = [int(shp[m]) for m in range(dim)]
    S.claim(f"step{k}:selected_range_has_the_requested_extent", S.and_([S.eq(stop[m] - start[m], int(shp[m])) for m in range(dim)]))
    return new, st2


def _time_step(darsia, cfg, cur, st, kind, k):
    n = len(st["tsel"])
    if kind == "time_slice":
        i = S.integer(f"s{k}_i", 0, n - 1)
        new = cur.time_slice(i)
        ci = _conc(i)
        st2 = dict(st, series=False, tsel=[st["tsel"][ci]])
    else:
        a = S.integer(f"s{k}_a", 0, n - 1)
        b = S.integer(f"s{k}_b", 1, n)
        S.assume(S.lt(a, b))
        new = cur.time_interval(slice(a, b))
        ca, cb = _conc(a), _conc(b)
        st2 = dict(st, tsel=st["tsel"][ca:cb])
    return new, st2


def _conc(x):
    if S.symbolic():
        from symx.core import ENGINE, term

        return ENGINE.concretize_int(term(x))
    return int(S.tofloat(x))


def body(cfg):
    import darsia

    if cfg["kind"] == "assemble":
        return body_assemble(cfg, darsia)
    root, A, dims, org, dates, times = _mk_root(darsia, cfg)
    dim = cfg["dim"]
    st = dict(off=[0] * dim, ext=list(cfg["shape"]), series=bool(cfg["series"]), tsel=list(range(cfg["series"])) if cfg["series"] else None)
    cur = root
    for k, kind in enumerate(cfg["prog"]):
        if kind.startswith("sub_"):
            cur, st = _spatial_step(darsia, cfg, cur, st, kind, k, root, dims)
        else:
            if not st["series"]:
                raise S.HarnessSkip("temporal extraction of a single-time image")
            cur, st = _time_step(darsia, cfg, cur, st, kind, k)
        _check(darsia, cfg, root, A, dims, org, dates, times, cur, st, f"step{k}")
    # the root is untouched by extraction
    S.claim("parent_data_untouched", S.eq(root.img, A))


def body_assemble(cfg, darsia):
    dim, shape = cfg["dim"], tuple(cfg["shape"])
    n = cfg["n"]
    ti = cfg["timeinfo"]
    dims = [S.real(f"d{m}", lo="1/10000", hi=10000) for m in range(dim)]
    org = [S.real(f"o{a}", lo=-1000, hi=1000) for a in range(dim)]
    ref = BASE + timedelta(hours=7)  # later than the first image: negative, multi-day and sub-second offsets all occur
    imgs, datas, dates, times, offs = [], [], [], [], []
    for i in range(n):
        full = shape + ((2,) if cfg["vector"] else ())
        a = S.array(f"a{i}", full, lo=-100, hi=100)
        kw = dict(dimensions=list(dims), origin=list(org), space_dim=dim, scalar=not cfg["vector"])
        d = t = None
        if ti.startswith("dates"):
            d = BASE + timedelta(days=i, hours=2 * i + i * i, microseconds=250000 * i)
            kw["date"] = d
            if ti == "dates_shared_ref":
                kw["reference_date"] = ref
                t = (d - ref).total_seconds()
        elif ti == "times":
            t = S.real(f"t{i}", lo=-1000, hi=1000)
            kw["time"] = t
        imgs.append(darsia.Image(a.copy(), **kw))
        datas.append(a)
        dates.append(d)
        times.append(t)
    originals = [im.copy() for im in imgs]
    if cfg["how"] == "stack":
        series = darsia.stack([im.copy() for im in imgs])
        exp_times = list(times) if ti == "dates_shared_ref" else None
    else:
        series = imgs[0].copy()
        exp_times = [times[0]]
        for i in range(1, n):
            if ti == "times":
                off = S.real(f"off{i}", lo=0, hi=1000)
                series.append(imgs[i].copy(), offset=off)
                exp_times.append(times[i] + off)
            else:
                series.append(imgs[i].copy())
                exp_times.append(times[i])
        if ti not in ("times", "dates_shared_ref"):
            exp_times = None
    S.claim("assembled_is_a_series_of_n", bool(series.series) and series.time_num == n and tuple(series.img.shape) == shape + (n,) + ((2,) if cfg["vector"] else ()))
    k = S.integer("k", 0, n - 1)
    sl = series.time_slice(k)
    ck = _conc(k)
    S.claim("slice_returns_the_original_data", S.and_(tuple(sl.img.shape) == tuple(datas[ck].shape), S.eq(sl.img, datas[ck])))
    S.claim("slice_returns_the_original_date", sl.date == dates[ck])
    if exp_times is not None:
        S.claim("slice_returns_the_original_relative_time", _eq_opt(sl.time, exp_times[ck]))
    S.claim("slice_keeps_geometry_and_layout", S.and_(S.eq(list(sl.origin), org), S.eq(list(sl.dimensions), dims), bool(sl.scalar) == (not cfg["vector"]), not sl.series, sl.space_dim == dim))
    if ti.startswith("dates"):
        S.claim("series_dates_in_order", series.date == dates)
    S.observe("slice", sl.img)
    # interval of the assembled series
    if n >= 3:
        iv = series.time_interval(slice(1, n))
        S.claim("interval_of_assembled_series", S.and_(S.eq(iv.time_slice(0).img, datas[1]), iv.time_num == n - 1, iv.date == dates[1:]))
