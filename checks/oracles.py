"""Reference formulas the harnesses assert against (DESIGN.md §9).  Deliberately not
taken from the code under test: plain index arithmetic."""
import itertools


def cell_id(idx, shape):
    """Fortran-order cell number of multi-index idx"""
    c, stride = 0, 1
    for i, n in zip(idx, shape):
        c += i * stride
        stride *= n
    return c


def faces_shape(d, shape):
    return tuple(n - (1 if e == d else 0) for e, n in enumerate(shape))


def num_faces_axis(d, shape):
    r = 1
    for n in faces_shape(d, shape):
        r *= max(n, 0)
    return r


def face_id(d, j, shape):
    """global number of the face of axis d with multi-index j (joins cells j and j+e_d)"""
    off = sum(num_faces_axis(e, shape) for e in range(d))
    return off + cell_id(j, faces_shape(d, shape))


def cells(shape):
    return list(itertools.product(*[range(n) for n in shape]))


def faces(d, shape):
    return list(itertools.product(*[range(n) for n in faces_shape(d, shape)]))


def shift(idx, d, k):
    return tuple(i + (k if e == d else 0) for e, i in enumerate(idx))


def face_right(d, c, shape):
    """face between c and c+e_d or None"""
    return face_id(d, c, shape) if c[d] + 1 < shape[d] else None


def face_left(d, c, shape):
    """face between c-e_d and c or None"""
    return face_id(d, shift(c, d, -1), shape) if c[d] - 1 >= 0 else None


# orientation table pinned by the repo's own tests (matrix axis -> (cartesian axis, sign))
ORIENT = {
    1: [(0, +1)],
    2: [(1, -1), (0, +1)],
    3: [(2, -1), (0, +1), (1, -1)],
}
