"""C08 -- all linear-solve formulations and back-ends solve the same system.

Real code executed symbolically: VariationalWassersteinDistance.__init__/_setup_*,
setup_eliminate_flux, setup_eliminate_lagrange_multiplier, linear_solve, eliminate_flux,
eliminate_lagrange_multiplier (the hand-written CSC row/column surgery), compute_flux_update,
and the assembling in jacobian / _update_regularization.
Symbolic: positive face weights, the right-hand side (flux block arbitrary, mass block
zero-mean), the back-end's answer (a fresh vector satisfying the REDUCED system it was
handed).  The scipy.sparse stand-in lays out .data/.indices/.indptr exactly like scipy.
"""
import itertools

import numpy as np

from symx import api as S

PROPERTY = "C08"
OPTIONS = dict(validate=10, query_timeout_ms=120000, path_wall_s=1500)
STUBS = ["splu / pyamg / scipy cg = exact solve of the matrix given at set-up (cg: of the referenced matrix); splu sorts the index arrays of its argument in place like scipy's wrapper"]
OUTSIDE = ["iterative tolerances", "PETSc KSP", "sparsity structures that depend on exact cancellation of entries"]
ASSUMPTIONS = ["the linear solver is exact", "face weights positive", "multiplier row of the right-hand side is 0 and the mass block has zero mean (what every caller passes)"]

FORMS = ["full", "flux_reduced", "pressure"]
BACKENDS = ["direct", "amg", "cg"]
VOX = [0.5, 0.25, 2.0]


def bounds(tier):
    if tier == "quick":
        return "all shapes with extents 1..3 in 1-D/2-D/3-D that have at least one face, plus (4,), (5,), (4,4); formulations full / flux_reduced / pressure x back-ends direct / amg / cg (full: direct only, as documented); two successive systems with and without solver reuse; weights and right-hand sides symbolic reals"
    return "the whole C07 shape range: 1-D 2..12, 2-D 1..7 x 1..7, 3-D 1..5^3 (pressure+direct on all; the other combinations on extents <= 3); weights and right-hand sides symbolic"


def configs(tier):
    out = []
    small = []
    for dim in (1, 2, 3):
        for shape in itertools.product(range(1, 4), repeat=dim):
            if int(np.prod(shape)) >= 2:
                small.append(list(shape))
    if tier == "quick":
        shapes = small + [[4], [5], [4, 4]]
        for shape in shapes:
            for f in FORMS:
                for b in BACKENDS:
                    if f == "full" and b != "direct":
                        continue
                    if len(shape) == 3 and int(np.prod(shape)) > 8 and not (f == "pressure" and b == "direct"):
                        continue
                    out.append(dict(kind="solve", shape=shape, form=f, backend=b))
        for shape in ([3], [2, 2], [3, 2], [2, 1, 2]):
            out.append(dict(kind="unique", shape=shape))
        for shape in ([3], [2, 2], [3, 2], [2, 1, 2]):
            for f in FORMS:
                for b in BACKENDS:
                    if f == "full" and b != "direct":
                        continue
                    out.append(dict(kind="first_reuse", shape=shape, form=f, backend=b))
    else:
        big = [[n] for n in range(2, 13)] + [list(s) for s in itertools.product(range(1, 8), repeat=2) if s[0] * s[1] >= 2] + [list(s) for s in itertools.product(range(1, 6), repeat=3) if int(np.prod(s)) >= 2]
        for shape in big:
            out.append(dict(kind="solve", shape=shape, form="pressure", backend="direct"))
            if shape in small or len(shape) == 1 or (len(shape) == 2 and max(shape) <= 5):
                for f in FORMS:
                    for b in BACKENDS:
                        if (f == "full" and b != "direct") or (f == "pressure" and b == "direct"):
                            continue
                        out.append(dict(kind="solve", shape=shape, form=f, backend=b))
        for shape in ([3], [5], [2, 2], [3, 2], [3, 3], [2, 1, 2], [2, 2, 2]):
            out.append(dict(kind="unique", shape=shape))
        for shape in small + [[4], [5], [4, 4]]:
            for f in FORMS:
                for b in BACKENDS:
                    if (f == "full" and b != "direct") or (len(shape) == 3 and int(np.prod(shape)) > 8):
                        continue
                    out.append(dict(kind="first_reuse", shape=shape, form=f, backend=b))
    # a non-default regularisation option (it guards the mobility, not the linear algebra) and an earlier solver
    # object on a grid of the same shape but other voxel sizes
    for shape in ([3], [2, 2]) + (() if tier == "quick" else ([3, 2], [2, 1, 2])):
        for f in FORMS:
            for b in BACKENDS:
                if f == "full" and b != "direct":
                    continue
                out.append(dict(kind="solve", shape=shape, form=f, backend=b, regularization=0.125))
                out.append(dict(kind="solve", shape=shape, form=f, backend=b, earlier_object=True))
                if shape == [2, 2]:
                    out.append(dict(kind="solve", shape=shape, form=f, backend=b, bare_options=True))
    # the system matrix handed over in CSR layout (linear_solve accepts any scipy sparse matrix)
    for shape in ([3], [2, 2]) + (() if tier == "quick" else ([3, 2], [2, 1, 2])):
        for f in FORMS:
            for b in BACKENDS:
                if f == "full" and b != "direct":
                    continue
                out.append(dict(kind="solve", shape=shape, form=f, backend=b, layout="csr"))
    for f in FORMS + ["flux-reduced"]:
        out.append(dict(kind="names", form=f))
    return out


LOG = []
OPTS_SEEN = []


def install_stubs():
    import darsia.measure.wasserstein as ws
    import darsia.utils.linalg as la
    from . import stubs

    stubs.install_linear_solver_stubs(ws, la, LOG)


def _solver(darsia, cfg, w, vox=None):
    import darsia.measure.wasserstein as ws

    shape = tuple(cfg["shape"])
    grid = darsia.Grid(shape, (vox or VOX)[: len(shape)])
    opts = {"formulation": cfg.get("form", "full"), "linear_solver": cfg.get("backend", "direct"), "linear_solver_options": {"atol": 1e-14, "rtol": 1e-14, "maxiter": 2000}}
    if "regularization" in cfg:
        opts["regularization"] = cfg["regularization"]
    if cfg.get("bare_options"):
        opts["linear_solver_options"] = {}
    OPTS_SEEN.append(opts)
    w1 = ws.WassersteinDistanceBregman(grid, None, opts)
    return grid, w1


def _system(w1, w):
    w1._compute_face_weight = lambda flux: (w, 1.0 / w)
    A, _, _ = w1._update_regularization(None)
    return A


def _rhs(name, nf, nc):
    dt = object if S.instrumented() else float
    b = np.zeros(nf + nc + 1, dtype=dt)
    fl = S.array(name + "f", nf, lo=-10, hi=10)
    ms = S.array(name + "m", nc - 1, lo=-10, hi=10) if nc > 1 else np.zeros(0)
    b[:nf] = fl
    b[nf : nf + nc - 1] = ms
    tot = 0
    for x in ms:
        tot = tot + x
    b[nf + nc - 1] = -tot
    return b


def _residual_ok(A, sol, rhs, nf, nc):
    r = A.dot(sol) - rhs
    return S.eq(r[:nf], 0), S.eq(r[nf : nf + nc], 0), S.eq(r[nf + nc :], 0)


def body(cfg):
    import darsia

    if cfg["kind"] == "names":
        return body_names(cfg, darsia)
    if cfg.get("earlier_object"):
        g0, w0 = _solver(darsia, cfg, None, vox=[1.5, 0.75, 0.125])
        nf0, nc0 = int(g0.num_faces), int(g0.num_cells)
        A0 = _system(w0, S.array("w0", nf0, lo="1/100", hi=10))
        w0.linear_solve(A0, _rhs("z", nf0, nc0))
    grid, w1 = _solver(darsia, cfg, None)
    nf, nc = int(grid.num_faces), int(grid.num_cells)
    w = S.array("w", nf, lo="1/100", hi=10)
    A = _system(w1, w)
    if cfg.get("layout") == "csr":
        A = A.tocsr()
    if cfg["kind"] == "unique":
        # the homogeneous system has only the zero solution => every exact back-end and every
        # formulation returns the same flux, pressure and multiplier
        if not S.symbolic():
            Ad = A.toarray() if hasattr(A, "toarray") else A.todense()
            Af = np.array([[S.tofloat(v) for v in row] for row in np.asarray(Ad, dtype=object)], dtype=float)
            S.claim("homogeneous_system_has_only_the_zero_solution", bool(np.linalg.matrix_rank(Af) == nf + nc + 1))
            return
        x = S.fresh("x", nf + nc + 1)
        r = A.dot(x)
        for ri in r:
            S.add_constraint(S.eq(ri, 0))
        S.claim("homogeneous_system_has_only_the_zero_solution", S.eq(x, 0))
        return
    rhs = _rhs("b", nf, nc)
    del LOG[:]
    if cfg["kind"] == "first_reuse":
        # the very first solve of a fresh object already asks for solver reuse (set-up happens on demand),
        # and the caller hands the SAME right-hand-side array to two successive solves
        mine = rhs.copy()
        sol, _ = w1.linear_solve(A, mine, reuse_solver=True)
        a, b_, c_ = _residual_ok(A, sol, rhs, nf, nc)
        S.claim("first_solve_with_reuse_flag_solves_the_system_it_was_given", S.and_(a, b_, c_))
        S.claim("right_hand_side_array_of_the_caller_is_left_as_it_was", S.eq(mine, rhs))
        sol_b, _ = w1.linear_solve(A, mine, reuse_solver=True)
        a, b_, c_ = _residual_ok(A, sol_b, rhs, nf, nc)
        S.claim("second_solve_with_the_same_array_solves_the_same_system", S.and_(a, b_, c_))
        S.observe("solution", sol)
        return
    sol, stats = w1.linear_solve(A, rhs.copy())
    S.observe("solution", sol)
    f_ok, m_ok, l_ok = _residual_ok(A, sol, rhs, nf, nc)
    S.claim("solution_satisfies_flux_rows_of_full_system", f_ok)
    S.claim("solution_satisfies_mass_balance_rows_of_full_system", m_ok)
    S.claim("solution_satisfies_constraint_row_of_full_system", l_ok)
    S.claim("solution_shape", len(sol) == nf + nc + 1)
    c = int(w1.constrained_cell_flat_index)
    S.claim("pressure_pinned_at_reference_cell", S.eq(sol[nf + c], 0))
    if cfg["form"] == "pressure":
        red = w1.reduced_matrix.todense() if hasattr(w1.reduced_matrix, "todense") else w1.reduced_matrix.toarray()
        full = w1.fully_reduced_matrix.todense() if hasattr(w1.fully_reduced_matrix, "todense") else w1.fully_reduced_matrix.toarray()
        red = np.asarray(red, dtype=object if S.instrumented() else float)
        full = np.asarray(full, dtype=object if S.instrumented() else float)
        keep = [i for i in range(nc) if i != c]
        want = red[np.ix_(keep, keep)]
        S.claim("fully_reduced_matrix_is_reduced_matrix_without_pinned_row_and_column", S.and_(full.shape == (nc - 1, nc - 1), S.eq(full, want) if full.shape == want.shape else False))
    # ---- a second system on the same object: another weighting, no reuse (fresh set-up expected)
    w2 = S.array("v", nf, lo="1/100", hi=10)
    A2 = _system(w1, w2)
    rhs2 = _rhs("c", nf, nc)
    sol2, _ = w1.linear_solve(A2, rhs2.copy(), reuse_solver=False)
    a, b_, c_ = _residual_ok(A2, sol2, rhs2, nf, nc)
    S.claim("second_system_without_reuse_is_solved_with_its_own_matrix", S.and_(a, b_, c_))
    # ---- a third system: SAME matrix as the second, new right-hand side, reuse the factorisation
    rhs3 = _rhs("e", nf, nc)
    n_setups = sum(1 for bk, ev in LOG if ev == "setup")
    sol3, _ = w1.linear_solve(A2, rhs3.copy(), reuse_solver=True)
    a, b_, c_ = _residual_ok(A2, sol3, rhs3, nf, nc)
    S.claim("same_matrix_with_reuse_is_solved_correctly", S.and_(a, b_, c_))
    # a caller that still holds the solution of the previous system: later solves must not overwrite it
    a, b_, c_ = _residual_ok(A2, sol2, rhs2, nf, nc)
    S.claim("earlier_solution_is_left_intact_by_later_solves", S.and_(a, b_, c_, sol2 is not sol3))
    if S.instrumented() and cfg["backend"] != "cg":
        S.claim("reuse_does_not_set_up_again", sum(1 for bk, ev in LOG if ev == "setup") == n_setups)
    # ---- a fourth: back to the first matrix without reuse
    rhs4 = _rhs("g", nf, nc)
    sol4, _ = w1.linear_solve(A, rhs4.copy(), reuse_solver=False)
    a, b_, c_ = _residual_ok(A, sol4, rhs4, nf, nc)
    S.claim("back_to_first_matrix_without_reuse", S.and_(a, b_, c_))
    # the options dictionary belongs to the caller (it is typically reused to build the next solver)
    import copy

    mine = OPTS_SEEN[-1]
    want = {"formulation": cfg.get("form", "full"), "linear_solver": cfg.get("backend", "direct"), "linear_solver_options": {} if cfg.get("bare_options") else {"atol": 1e-14, "rtol": 1e-14, "maxiter": 2000}}
    if "regularization" in cfg:
        want["regularization"] = cfg["regularization"]
    S.claim("options_of_the_caller_are_left_as_they_were", copy.deepcopy(mine) == want)
    S.observe("solution4", sol4)


def body_names(cfg, darsia):
    """every documented formulation name is accepted, set up and reaches a solve branch"""
    import darsia.measure.wasserstein as ws

    grid = darsia.Grid((2, 2), [0.5, 0.25])
    f = cfg["form"]
    documented = f in FORMS
    try:
        w1 = ws.WassersteinDistanceBregman(grid, None, {"formulation": f, "linear_solver": "direct"})
        accepted = True
    except AssertionError:
        accepted = False
    S.claim("documented_formulation_is_accepted" if documented else "undocumented_name", accepted if documented else True)
    if not accepted:
        return
    nf, nc = int(grid.num_faces), int(grid.num_cells)
    w = S.array("w", nf, lo="1/100", hi=10)
    A = _system(w1, w)
    if cfg.get("layout") == "csr":
        A = A.tocsr()
    rhs = _rhs("b", nf, nc)
    try:
        sol, _ = w1.linear_solve(A, rhs.copy())
        usable = True
    except (UnboundLocalError, NameError, AttributeError):
        usable = False
    S.claim("accepted_formulation_is_usable", usable)
    if usable:
        a, b_, c_ = _residual_ok(A, sol, rhs, nf, nc)
        S.claim("accepted_formulation_solves_the_system", S.and_(a, b_, c_))
