"""C10 -- every correction honours the copy / in-place / array / series contract.

Real code executed symbolically: BaseCorrection.__call__ (the one workflow shared by all
corrections), Image.__init__(transformations=...), Image.update_metadata, and the
corrections whose correct_array is numpy-only after stubbing: RotationCorrection (neutral
angle), TransformationCorrection (identity map), DriftCorrection(active=False),
TranslationCorrection (inactive), TypeCorrection(float) -- plus two harness corrections with
SYMBOLIC behaviour standing for "any correction": an element-wise affine map with symbolic
coefficients and a declared metadata update, and a shape-changing crop.
Symbolic: pixel data, coefficients, the flags overwrite / series / scalar (symbolic
Booleans -> forks), metadata values.
"""
import numpy as np

from symx import api as S

PROPERTY = "C10"
OPTIONS = dict(validate=12, query_timeout_ms=60000)
STUBS = ["skimage.img_as_float on an array that is already float = identity"]
OUTSIDE = ["pixel semantics of curvature / colour / illumination / active translation and drift corrections (skimage, scipy map_coordinates, cv2.warpAffine, feature matching)", "dtype equality for neutral corrections (RotationCorrection always returns float64): value equality is asserted"]
ASSUMPTIONS = ["a correction's correct_array returns a new array (all DarSIA corrections do); in-place array corrections are outside"]

CORRS = ["affine_generic", "crop_generic", "rotation_neutral", "transformation_identity", "drift_inactive", "translation_inactive", "type_float", "illumination_rgb", "illumination_scalar", "curvature_metadata"]


def bounds(tier):
    return "shapes 2x3 (and 3x3, 2x2 thorough), series of 2 (3 thorough), scalar and 2-channel data; overwrite / series / scalar as symbolic Booleans; inputs: raw array, Image, ScalarImage, OpticalImage (3 channels); corrections: %s; Image(..., transformations=[c1, c2]) applies them in order" % ", ".join(CORRS)


def configs(tier):
    out = []
    shapes = [[2, 3]] + ([[3, 3], [2, 2], [3, 4], [1, 3], [4, 1]] if tier != "quick" else [])
    for shape in shapes:
        for c in CORRS:
            out.append(dict(kind="workflow", shape=shape, corr=c, T=2 if tier == "quick" else 3))
        for c in ("affine_generic", "rotation_neutral", "drift_inactive"):
            out.append(dict(kind="array", shape=shape, corr=c))
            out.append(dict(kind="kinds", shape=shape, corr=c))
        out.append(dict(kind="constructor", shape=shape))
        for dt in ("uint8", "uint16", "float32"):
            for c in ("type_float", "rotation_neutral", "drift_inactive"):
                out.append(dict(kind="dtypes", shape=shape, dtype=dt, corr=c))
    return out


def install_stubs():
    import darsia.corrections.typecorrection as tc
    from symx import npx

    real = tc.skimage

    class SK:
        def __getattr__(self, n):
            return getattr(real, n)

        @staticmethod
        def img_as_float(a, *x, **k):
            if npx.has_sym(a):
                return a
            return real.img_as_float(a, *x, **k)

        img_as_float64 = img_as_float

    tc.skimage = SK()


def make_correction(darsia, name, shape, tag=""):
    """returns (correction, oracle(array)->array, metadata update dict)"""
    import darsia as d

    if name == "affine_generic":
        k = S.real(tag + "k", lo=-5, hi=5)
        b = S.real(tag + "b", lo=-5, hi=5)
        nm = "corrected" + tag

        class Affine(d.BaseCorrection):
            def correct_array(self, img):
                return img * k + b

            def correct_metadata(self, metadata={}):
                return {"name": nm}

            def save(self, path):
                pass

            def load(self, path):
                pass

        return Affine(), (lambda a: a * k + b), {"name": nm}
    if name == "crop_generic":
        class Crop(d.BaseCorrection):
            def correct_array(self, img):
                return img[:, 1:].copy()

            def correct_metadata(self, metadata={}):
                return {"dimensions": [metadata["dimensions"][0], metadata["dimensions"][1] * (shape[1] - 1) / shape[1]]}

            def save(self, path):
                pass

            def load(self, path):
                pass

        return Crop(), (lambda a: a[:, 1:]), None
    if name == "rotation_neutral":
        return d.RotationCorrection(anchor=[1, 1], rotations=[0.0]), (lambda a: a), {}
    if name == "transformation_identity":
        img0 = d.Image(np.zeros(shape), dimensions=[1.0, 2.0], scalar=True)
        T = d.AffineTransformation(2)
        pts = d.make_voxel_center(np.zeros((2, 2)))
        T.set_dtype(pts, pts)
        return d.TransformationCorrection(img0.coordinatesystem, img0.coordinatesystem, T), (lambda a: a), {}
    if name == "drift_inactive":
        return d.DriftCorrection(base=np.zeros(tuple(shape) + (3,)), config={"active": False}), (lambda a: a), {}
    if name == "translation_inactive":
        return d.TranslationCorrection(), (lambda a: a), {}
    if name == "type_float":
        return d.TypeCorrection(float), (lambda a: a), {}
    if name == "curvature_metadata":
        # the real CurvatureCorrection.correct_metadata (crop with width / height) around a pass-through array correction
        cw, chh = S.real(tag + "cw", lo=1, hi=3), S.real(tag + "ch", lo=1, hi=3)

        class Curv(d.CurvatureCorrection):
            def correct_array(self, img):
                return img.copy()

        c = Curv(config={"crop": {"pts_src": [[0, 0], [0, 1], [1, 1], [1, 0]], "width": cw, "height": chh}})
        return c, (lambda a: a), {"dimensions": [chh, cw], "origin": [0, chh]}
    if name.startswith("illumination"):
        # the real IlluminationCorrection with a given (symbolic) local scaling -- calibration is outside
        ic = d.IlluminationCorrection()
        ic.colorspace = "rgb" if name.endswith("rgb") else "hsl-scalar"
        L = [S.array(f"{tag}L{i}", shape, lo="1/2", hi=2) for i in range(3 if name.endswith("rgb") else 1)]
        ic.local_scaling = [d.ScalarImage(x.copy(), dimensions=[1.0, 2.0]) for x in L]

        def oracle(a):
            out = a.copy()
            for i in range(3):
                out[..., i] = a[..., i] * L[i if len(L) == 3 else 0]
            return out

        return ic, oracle, {}
    raise ValueError(name)


def body(cfg):
    import darsia

    shape = tuple(cfg["shape"])
    corr, oracle, upd = make_correction(darsia, cfg["corr"], shape) if cfg["kind"] != "constructor" else (None, None, None)
    if cfg["kind"] == "dtypes" and cfg["corr"] == "drift_inactive":
        corr = darsia.DriftCorrection(base=np.zeros(shape), config={"active": False})
    dims = [S.real("d0", lo="1/10", hi=10), S.real("d1", lo="1/10", hi=10)]
    org = [S.real("o0", lo=-5, hi=5), S.real("o1", lo=-5, hi=5)]
    if cfg["kind"] == "array":
        a = S.array("a", shape, lo=-10, hi=10)
        ow = S.boolean("overwrite")
        arg = a.copy()
        out = corr(arg, overwrite=bool(ow))
        S.claim("array_in_array_out_with_the_corrected_values", S.and_(isinstance(out, np.ndarray), S.eq(out, oracle(a))))
        if not bool(ow):
            S.claim("array_input_untouched_without_overwrite", S.eq(arg, a))
        return
    if cfg["kind"] == "kinds":
        # image kinds: general Image, ScalarImage, OpticalImage -- the result is of the same kind
        for kind in ("Image", "ScalarImage", "OpticalImage"):
            if kind == "OpticalImage":
                a = S.array("c", shape + (3,), lo=0, hi=1)
                im = darsia.OpticalImage(a.copy(), dimensions=list(dims), origin=list(org), color_space="RGB")
            elif kind == "ScalarImage":
                a = S.array("s", shape, lo=-10, hi=10)
                im = darsia.ScalarImage(a.copy(), dimensions=list(dims), origin=list(org))
            else:
                a = S.array("g", shape + (2,), lo=-10, hi=10)
                im = darsia.Image(a.copy(), dimensions=list(dims), origin=list(org), scalar=False)
            out = corr(im)
            S.claim(f"{kind}_result_is_same_kind_with_corrected_pixels", S.and_(type(out) is type(im), out is not im, S.eq(out.img, oracle(a)), S.eq(im.img, a)))
        return
    if cfg["kind"] == "dtypes":
        # concrete pixel values of a non-float64 dtype: the series result is the per-slice correction
        # (values AND dtype), with and without overwrite
        import skimage

        dt = np.dtype(cfg["dtype"])
        rng = np.random.default_rng(3)
        T = 2
        raw = (rng.integers(0, 200, size=shape + (T,)).astype(dt) if dt.kind == "u" else rng.uniform(0, 1, size=shape + (T,)).astype(dt))
        for ow in (False, True):
            im = darsia.Image(raw.copy(), dimensions=[1.0, 2.0], scalar=True, series=True, time=[0.0, 1.0])
            out = corr(im, overwrite=ow)
            sl = [corr.correct_array(raw[..., t].copy()) for t in range(T)]
            exp = np.stack(sl, axis=2)
            S.claim(f"series_of_{cfg['dtype']}_equals_per_slice_correction_overwrite_{ow}", bool(out.img.dtype == exp.dtype and out.img.shape == exp.shape and np.array_equal(out.img, exp)))
            if cfg["corr"] == "type_float":
                S.claim(f"type_correction_promotes_values_overwrite_{ow}", bool(np.allclose(out.img, skimage.img_as_float(raw))))
            if not ow:
                S.claim("input_series_untouched", bool(np.array_equal(im.img, raw) and im.img.dtype == dt))
            # a raw array of that dtype: the result (values AND dtype) is the correction of the array, overwrite or not
            arr = raw[..., 0].copy()
            ref = corr.correct_array(raw[..., 0].copy())
            got = corr(arr, overwrite=ow)
            S.claim(f"array_of_{cfg['dtype']}_gives_the_corrected_array_overwrite_{ow}", bool(isinstance(got, np.ndarray) and got.dtype == ref.dtype and got.shape == ref.shape and np.array_equal(got, ref)))
            if not ow:
                S.claim("input_array_untouched", bool(np.array_equal(arr, raw[..., 0]) and arr.dtype == dt))
        return
    if cfg["kind"] == "constructor":
        # corrections passed to the Image constructor are applied in order, in place
        c1, o1, u1 = make_correction(darsia, "affine_generic", shape, "1")
        c2, o2, u2 = make_correction(darsia, "affine_generic", shape, "2")
        a = S.array("a", shape, lo=-10, hi=10)
        raw = a.copy()
        im = darsia.Image(raw, [c1, None, c2], dimensions=list(dims), origin=list(org), scalar=True)
        S.claim("constructor_applies_corrections_in_order", S.eq(im.img, o2(o1(a))))
        S.claim("constructor_metadata_update_of_last_correction_wins", im.name == u2["name"])
        S.claim("constructor_keeps_geometry", S.and_(S.eq(list(im.dimensions), dims), S.eq(list(im.origin), org)))
        return
    # ---- the workflow on images
    series = S.boolean("series")
    scalar = S.boolean("scalar")
    ow = S.boolean("overwrite")
    series, scalar, ow = bool(series), bool(scalar), bool(ow)
    nch = 2
    if cfg["corr"].startswith("illumination"):
        if scalar:
            raise S.HarnessSkip("illumination correction is defined for colour images only")
        nch = 3
    if cfg["corr"] in ("drift_inactive",) and scalar and False:
        pass
    T = cfg["T"]
    full = shape + ((T,) if series else ()) + (() if scalar else (nch,))
    a = S.array("a", full, lo=-10, hi=10)
    kw = dict(dimensions=list(dims), origin=list(org), scalar=scalar, series=series, name="input")
    if series:
        kw["time"] = [float(i) for i in range(T)]
    raw = a.copy()
    im = darsia.Image(raw, **kw)
    out = corr(im, overwrite=ow)
    # expected pixels: the correction applied to the raw array, slice by slice for a series
    if series:
        sl = [oracle(a[..., t] if scalar else a[..., t, :]) for t in range(T)]
        exp = np.stack(sl, axis=2)
    else:
        exp = oracle(a)
    S.claim("result_pixels_are_the_correction_of_the_raw_array", S.and_(tuple(out.img.shape) == tuple(exp.shape), S.eq(out.img, exp) if tuple(out.img.shape) == tuple(exp.shape) else False))
    S.claim("result_is_same_kind_of_image", type(out) is type(im) and bool(out.series) == series and bool(out.scalar) == scalar and out.space_dim == 2)
    if series:
        S.claim("series_time_axis_kept", list(out.time) == [float(i) for i in range(T)] and out.time_num == T)
    exp_name = upd["name"] if upd and "name" in upd else "input"
    if cfg["corr"] == "crop_generic":
        exp_dims = [dims[0], dims[1] * (shape[1] - 1) / shape[1]]
    else:
        exp_dims = upd["dimensions"] if upd and "dimensions" in upd else dims
    exp_org = upd["origin"] if upd and "origin" in upd else org
    S.claim("result_metadata_is_input_plus_declared_update", S.and_(out.name == exp_name, S.eq(list(out.dimensions), exp_dims), S.eq(list(out.origin), exp_org)))
    if ow:
        S.claim("overwrite_returns_the_very_same_object", out is im)
    else:
        S.claim("without_overwrite_a_new_object_is_returned", out is not im and out.img is not im.img)
        S.claim("without_overwrite_input_pixels_untouched", S.and_(im.img is raw, S.eq(im.img, a), S.eq(raw, a)))
        S.claim("without_overwrite_input_metadata_untouched", S.and_(im.name == "input", S.eq(list(im.dimensions), dims), S.eq(list(im.origin), org), bool(im.series) == series))
    S.observe("out", out.img)
