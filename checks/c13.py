"""C13 -- concentration analysis zeroes the baseline and applies its stages in order.

Real code executed symbolically: ConcentrationAnalysis.__init__/__call__/
_subtract_background/_reduce_signal/_clean_signal/_balance_signal/_restore_signal/
_convert_signal/find_cleaning_filter.  Pixels are symbolic reals; the stages (reduction
R^3->R, balancing, restoration (non-local), model) are UNINTERPRETED functions, so a
swapped, skipped or duplicated stage changes the result term and the order is decided by
congruence closure.
"""
import itertools

import numpy as np

from symx import api as S

PROPERTY = "C13"
OPTIONS = dict(validate=12, query_timeout_ms=60000)
STUBS = ["skimage.util.compare_images(a, b, method='diff') = |a - b| on symbolic arrays", "stages = uninterpreted functions (sym) / fixed generic non-linear functions (replay)"]
OUTSIDE = ["what the concrete reduction / TVD / model classes compute (C14, C16)", "verbosity > 0 plotting"]
ASSUMPTIONS = ["integer inputs are promoted by skimage.img_as_float (trusted); integer configurations use concrete pixel values"]

DIFFS = ["absolute", "positive", "negative", "plain"]
STAGES = ["reduction", "balancing", "restoration", "model"]


def bounds(tier):
    return ("shapes 2x2 and 1x2, scalar and 3-channel images, 0..%d extra baselines, every diff option, stage presence patterns %s, both stage orders; uint8/uint16 inputs with concrete values; pixels symbolic in [-10, 10]"
            % (2 if tier == "quick" else 3, "all-present / all-absent / each single stage absent / each single stage present" if tier == "quick" else "all 16"))


def configs(tier):
    out = []
    if tier == "quick":
        pats = [(1, 1, 1, 1), (0, 0, 0, 0), (0, 1, 1, 1), (1, 0, 1, 1), (1, 1, 0, 1), (1, 1, 1, 0), (1, 0, 0, 0), (0, 0, 1, 0), (0, 0, 0, 1), (0, 1, 0, 0)]
        extras = (0, 1, 2)
        shapes = ([2, 2],)
    else:
        pats = list(itertools.product((0, 1), repeat=4))
        extras = (0, 1, 2, 3)
        shapes = ([2, 2], [1, 2])
    for shape in shapes:
        for channels in (1, 3):
            for nb in extras:
                for diff in DIFFS:
                    for pat in pats:
                        for order in (True, False):
                            if tier == "quick" and nb == 2 and pat not in ((1, 1, 1, 1), (0, 0, 0, 0)):
                                continue
                            if tier == "quick" and not order and pat in ((1, 0, 0, 0), (0, 1, 0, 0)):
                                continue
                            out.append(dict(kind="pipeline", shape=shape, channels=channels, extra=nb, diff=diff, stages=list(pat), order=order))
        for channels in (1, 3):
            for nb in extras[:2]:
                out.append(dict(kind="parts", shape=shape, channels=channels, extra=nb))
    for dt in ("uint8", "uint16"):
        for diff in DIFFS:
            for channels in (1, 3):
                for nb in ((0, 1) if tier == "quick" else (0, 1, 3)):
                    out.append(dict(kind="integer", shape=[2, 2], channels=channels, dtype=dt, diff=diff, order=(diff != "plain"), extra=nb))
    # concrete stage classes named by the property: MonochromaticReduction, ScalingModel / LinearModel
    for color in ("red", "green", "blue", "red+green", "negative-key") if tier != "quick" else ("green", "red+green", "negative-key"):
        for bal in ("scaling", "linear", None):
            for order in (True, False):
                if tier == "quick" and not order and bal != "linear":
                    continue
                for scal in ("one", "generic"):
                    out.append(dict(kind="concrete", shape=[2, 2], channels=3, color=color, balancing=bal, order=order, diff="absolute" if order else "plain", extra=1 if bal else 0, scalings=scal))
    return out


def install_stubs():
    import darsia.multi_image_analysis.concentrationanalysis as ca
    from symx import npx

    real = ca.skimage

    class _Util:
        def __getattr__(self, n):
            return getattr(real.util, n)

        @staticmethod
        def compare_images(a, b, method="diff", **k):
            if npx.has_sym(a) or npx.has_sym(b):
                assert method == "diff"
                return npx.NP.absolute(a - b)
            return real.util.compare_images(a, b, method=method, **k)

    class _SK:
        util = _Util()

        def __getattr__(self, n):
            return getattr(real, n)

    ca.skimage = _SK()


def _stages(cfg, npx_shape):
    """the four stages as callables over arrays (UFs in sym mode)"""
    n = int(np.prod(npx_shape))
    red = S.uf("red", 3)
    bal = S.uf("bal", 1)
    mod = S.uf("mod", 1)
    rest = [S.uf(f"rest{i}", n) for i in range(n)]  # non-local: every output pixel sees all inputs
    calls = []
    dt = object if S.instrumented() else float

    def reduction(a):
        calls.append("reduction")
        out = np.empty(a.shape[:2], dtype=dt)
        for i in np.ndindex(*a.shape[:2]):
            px = a[i]
            out[i] = red(px[0], px[1], px[2]) if np.ndim(px) else red(px, px, px)
        return out

    def elementwise(name, f):
        def g(a):
            calls.append(name)
            out = np.empty(a.shape, dtype=dt)
            for i in np.ndindex(*a.shape):
                out[i] = f(a[i])
            return out
        return g

    def restoration(a):
        calls.append("restoration")
        flat = list(a.ravel())
        out = np.empty(a.shape, dtype=dt)
        for k, i in enumerate(np.ndindex(*a.shape)):
            out[i] = rest[k % n](*[flat[j % len(flat)] for j in range(n)]) if len(flat) == n else rest[k % n](*([flat[k]] * n))
        return out

    return dict(reduction=reduction, balancing=elementwise("balancing", bal), restoration=restoration, model=elementwise("model", mod)), dict(red=red, bal=bal, mod=mod, rest=rest), calls


def _expected(cfg, fns, present, diffarr, F, order):
    """oracle: model(restoration(balancing(clean(reduce(diff)))))  (restoration/model swapped if not order)"""
    red, bal, mod, rest = fns["red"], fns["bal"], fns["mod"], fns["rest"]
    shape2 = diffarr.shape[:2]
    dt = object if S.instrumented() else float
    if present["reduction"]:
        x = np.empty(shape2, dtype=dt)
        for i in np.ndindex(*shape2):
            px = diffarr[i]
            x[i] = red(px[0], px[1], px[2]) if np.ndim(px) else red(px, px, px)
    else:
        x = diffarr
    if F is not None:
        y = np.empty(x.shape, dtype=dt)
        for i in np.ndindex(*x.shape):
            y[i] = S.max_(x[i] - F[i[:2]] if F.ndim == 2 and x.ndim == 3 else x[i] - F[i], 0)
        x = y

    def ew(f, a):
        out = np.empty(a.shape, dtype=dt)
        for i in np.ndindex(*a.shape):
            out[i] = f(a[i])
        return out

    def rs(a):
        flat = list(a.ravel())
        n = len(rest)
        out = np.empty(a.shape, dtype=dt)
        for k, i in enumerate(np.ndindex(*a.shape)):
            out[i] = rest[k % n](*[flat[j] for j in range(n)]) if len(flat) == n else rest[k % n](*([flat[k]] * n))
        return out

    if present["balancing"]:
        x = ew(bal, x)
    if order:
        if present["restoration"]:
            x = rs(x)
        if present["model"]:
            x = ew(mod, x)
    else:
        if present["model"]:
            x = ew(mod, x)
        if present["restoration"]:
            x = rs(x)
    return x


def _diff(option, p, b):
    dt = object if S.instrumented() else float
    out = np.empty(p.shape, dtype=dt)
    for i in np.ndindex(*p.shape):
        d = p[i] - b[i]
        if option == "absolute":
            out[i] = S.max_(d, -d)
        elif option == "positive":
            out[i] = S.max_(d, 0)
        elif option == "negative":
            out[i] = S.max_(-d, 0)
        else:
            out[i] = d
    return out


def _mk(darsia, arr, channels, dims, org, cls=None):
    kw = dict(dimensions=list(dims), origin=list(org), scalar=(channels == 1), name="probe")
    return (cls or darsia.Image)(arr, **kw)


def body(cfg):
    import darsia

    shape = tuple(cfg["shape"])
    ch = cfg["channels"]
    full = shape + ((3,) if ch == 3 else ())
    dims = [S.real("d0", lo="1/100", hi=100), S.real("d1", lo="1/100", hi=100)]
    org = [S.real("o0", lo=-10, hi=10), S.real("o1", lo=-10, hi=10)]
    if cfg["kind"] == "integer":
        return body_integer(cfg, darsia, shape, ch, full, dims, org)
    if cfg["kind"] == "concrete":
        return body_concrete(cfg, darsia, shape, ch, full, dims, org)
    base = S.array("b", full, lo=-10, hi=10)
    probe = S.array("p", full, lo=-10, hi=10)
    extra = [S.array(f"e{k}", full, lo=-10, hi=10) for k in range(cfg["extra"])]
    B = _mk(darsia, base.copy(), ch, dims, org)
    P = _mk(darsia, probe.copy(), ch, dims, org)
    Es = [_mk(darsia, e.copy(), ch, dims, org) for e in extra]
    if cfg["kind"] == "parts":
        return body_parts(cfg, darsia, B, P, Es, base, probe, extra)
    stage_fns, fns, calls = _stages(cfg, shape)
    present = {n: bool(f) for n, f in zip(STAGES, cfg["stages"])}
    if ch == 1 and present["reduction"]:
        pass  # a reduction of a scalar image is allowed (e.g. identity-like): handled by red(x,x,x)
    an = darsia.ConcentrationAnalysis(
        [B] + Es if Es else B,
        stage_fns["reduction"] if present["reduction"] else None,
        stage_fns["balancing"] if present["balancing"] else None,
        stage_fns["restoration"] if present["restoration"] else None,
        stage_fns["model"] if present["model"] else None,
        **{"diff option": cfg["diff"], "restoration -> model": cfg["order"]},
    )
    del calls[:]
    out = an(P)
    call_order = list(calls)
    # oracle
    F = None
    if extra:
        dt = object if S.instrumented() else float
        red_shape = shape if present["reduction"] else full
        F = np.zeros(red_shape, dtype=dt)
        for e in extra:
            de = _expected(cfg, fns, dict(present, balancing=False, restoration=False, model=False), _diff(cfg["diff"], e, base), None, True)
            for i in np.ndindex(*red_shape):
                F[i] = S.max_(F[i], de[i])
    exp = _expected(cfg, fns, present, _diff(cfg["diff"], probe, base), F, cfg["order"])
    same_shape = tuple(out.img.shape) == tuple(exp.shape)
    S.claim("result_is_model_restoration_balancing_cleaning_reduction_of_difference", S.and_(same_shape, S.eq(out.img, exp) if same_shape else False))
    want_calls = [n for n in (["reduction", "balancing", "restoration", "model"] if cfg["order"] else ["reduction", "balancing", "model", "restoration"]) if present[n]]
    S.claim("stages_called_once_in_documented_order", call_order == want_calls)
    # baseline itself -> the stages see a zero difference
    del calls[:]
    outb = an(B)
    expb = _expected(cfg, fns, present, _diff(cfg["diff"], base, base), F, cfg["order"])
    S.claim("baseline_maps_to_zero_difference", S.eq(outb.img, expb) if tuple(outb.img.shape) == tuple(expb.shape) else False)
    if not any(cfg["stages"]):
        S.claim("baseline_maps_to_zero_signal", S.eq(outb.img, np.zeros(full)))
    # probe untouched, metadata carried over
    S.claim("probe_pixels_unmodified", S.eq(P.img, probe))
    S.claim("probe_metadata_unmodified", S.and_(S.eq(list(P.dimensions), dims), S.eq(list(P.origin), org), P.name == "probe", bool(P.scalar) == (ch == 1)))
    S.claim("result_carries_probe_metadata", S.and_(S.eq(list(out.dimensions), dims), S.eq(list(out.origin), org), out.name == "probe", out.space_dim == 2, out.indexing == P.indexing, not out.series))
    reduced = present["reduction"] and ch == 3
    if reduced:
        S.claim("reduced_result_is_scalar_image", isinstance(out, darsia.ScalarImage) and bool(out.scalar))
    else:
        S.claim("unreduced_result_keeps_image_kind", type(out) is type(P) and bool(out.scalar) == (ch == 1))
    S.observe("out", out.img)


def body_parts(cfg, darsia, B, P, Es, base, probe, extra):
    """positive + negative = absolute, positive - negative = plain (identity stages)"""
    res = {}
    for d in DIFFS:
        an = darsia.ConcentrationAnalysis([B] + Es if Es else B, None, None, None, None, **{"diff option": d})
        # without the cleaning filter the four options are directly comparable
        if Es:
            an.threshold_cleaning_filter = None
        res[d] = an(P).img
    S.claim("positive_plus_negative_is_absolute", S.eq(res["positive"] + res["negative"], res["absolute"]))
    S.claim("positive_minus_negative_is_plain", S.eq(res["positive"] - res["negative"], res["plain"]))
    S.claim("plain_is_probe_minus_baseline", S.eq(res["plain"], probe - base))
    S.claim("parts_are_nonnegative", S.and_(S.le(0, res["positive"]), S.le(0, res["negative"]), S.le(0, res["absolute"])))
    S.observe("absolute", res["absolute"])
    # no baseline at all: the options act on the probe itself
    for d in DIFFS:
        an = darsia.ConcentrationAnalysis(None, None, None, None, None, **{"diff option": d})
        res[d] = an(P).img
    S.claim("without_baseline_parts_of_the_probe", S.and_(S.eq(res["positive"] + res["negative"], res["absolute"]), S.eq(res["positive"] - res["negative"], res["plain"]), S.eq(res["plain"], probe)))


def body_integer(cfg, darsia, shape, ch, full, dims, org):
    import skimage

    dt = np.uint8 if cfg["dtype"] == "uint8" else np.uint16
    hi = 255 if cfg["dtype"] == "uint8" else 65535
    rng = np.random.default_rng(7 + hi + ch + len(cfg["diff"]))
    base = rng.integers(0, hi + 1, size=full).astype(dt)
    probe = rng.integers(0, hi + 1, size=full).astype(dt)
    extra = [rng.integers(0, hi + 1, size=full).astype(dt) for _ in range(cfg.get("extra", 0))]
    B = _mk(darsia, base.copy(), ch, dims, org)
    P = _mk(darsia, probe.copy(), ch, dims, org)
    Es = [_mk(darsia, e.copy(), ch, dims, org) for e in extra]
    stage_fns, fns, calls = _stages(cfg, shape)
    present = dict(reduction=(ch == 3), balancing=True, restoration=True, model=True)
    an = darsia.ConcentrationAnalysis([B] + Es if Es else B, stage_fns["reduction"] if ch == 3 else None, stage_fns["balancing"], stage_fns["restoration"], stage_fns["model"], **{"diff option": cfg["diff"], "restoration -> model": cfg["order"]})
    out = an(P)
    fb = skimage.img_as_float(base)
    fp = skimage.img_as_float(probe)
    if S.instrumented():
        fb, fp = fb.astype(object), fp.astype(object)
    F = None
    if extra:
        red_shape = shape if ch == 3 else full
        F = np.zeros(red_shape, dtype=object if S.instrumented() else float)
        for e in extra:
            fe = skimage.img_as_float(e)
            if S.instrumented():
                fe = fe.astype(object)
            de = _expected(cfg, fns, dict(present, balancing=False, restoration=False, model=False), _diff(cfg["diff"], fe, fb), None, True)
            for i in np.ndindex(*red_shape):
                F[i] = S.max_(F[i], de[i])
    exp = _expected(cfg, fns, present, _diff(cfg["diff"], fp, fb), F, cfg["order"])
    S.claim("integer_inputs_are_promoted_before_subtraction", S.eq(out.img, exp) if tuple(out.img.shape) == tuple(exp.shape) else False)
    S.claim("integer_probe_unmodified", bool(np.array_equal(P.img, probe)) and P.img.dtype == dt)
    S.observe("out", out.img)
    # the SAME probe object carries the next frame (its array is refilled in place) and is analysed again
    probe2 = rng.integers(0, hi + 1, size=full).astype(dt)
    P.img[...] = probe2
    out2 = an(P)
    fp2 = skimage.img_as_float(probe2)
    if S.instrumented():
        fp2 = fp2.astype(object)
    exp2 = _expected(cfg, fns, present, _diff(cfg["diff"], fp2, fb), F, cfg["order"])
    S.claim("refilled_probe_object_is_analysed_with_its_current_data", S.eq(out2.img, exp2) if tuple(out2.img.shape) == tuple(exp2.shape) else False)


def body_concrete(cfg, darsia, shape, ch, full, dims, org):
    """the stage classes the property names, with symbolic parameters: MonochromaticReduction(color),
    ScalingModel / LinearModel as balancing, LinearModel as model; restoration stays uninterpreted"""
    base = S.array("b", full, lo=0, hi=1)
    probe = S.array("p", full, lo=0, hi=1)
    extra = [S.array(f"e{k}", full, lo=0, hi=1) for k in range(cfg["extra"])]
    B = _mk(darsia, base.copy(), ch, dims, org)
    P = _mk(darsia, probe.copy(), ch, dims, org)
    Es = [_mk(darsia, e.copy(), ch, dims, org) for e in extra]
    stage_fns, fns, calls = _stages(cfg, shape)
    # scalings are concrete per configuration (1 exactly -- the value ScalingModel short-cuts -- or a
    # generic one) so that the composition stays linear for the solver; offsets and pixels are symbolic
    s, sb = (1.0, 1.0) if cfg["scalings"] == "one" else (-1.5, 2.5)
    o, ob = S.real("o", lo=-2, hi=2), S.real("ob", lo=-2, hi=2)
    red = darsia.MonochromaticReduction(color=cfg["color"])
    bal = {"scaling": lambda: darsia.ScalingModel(scaling=sb), "linear": lambda: darsia.LinearModel(scaling=sb, offset=ob), None: lambda: None}[cfg["balancing"]]()
    mod = darsia.LinearModel(scaling=s, offset=o)
    an = darsia.ConcentrationAnalysis([B] + Es if Es else B, red, bal, stage_fns["restoration"], mod, **{"diff option": cfg["diff"], "restoration -> model": cfg["order"]})
    out = an(P)

    def mono(a):
        c = cfg["color"]
        if c in ("red", "green", "blue"):
            return a[..., ("red", "green", "blue").index(c)]
        if c == "red+green":
            return a[..., 0] + a[..., 1]
        res = np.empty(a.shape[:2], dtype=a.dtype)
        for i in np.ndindex(*a.shape[:2]):
            res[i] = 1 - S.min_(S.min_(1 - a[i][0], 1 - a[i][1]), 1 - a[i][2])
        return res

    x = mono(_diff(cfg["diff"], probe, base))
    if extra:
        Fm = np.zeros(x.shape, dtype=x.dtype)  # the filter starts from zero
        for e in extra:
            Fm = S.elementwise(S.max_, 2)(Fm, mono(_diff(cfg["diff"], e, base)))
        y = np.empty(x.shape, dtype=x.dtype)
        for i in np.ndindex(*x.shape):
            y[i] = S.max_(x[i] - Fm[i], 0)
        x = y
    if cfg["balancing"] == "scaling":
        x = sb * x
    elif cfg["balancing"] == "linear":
        x = sb * x + ob
    rest = fns["rest"]

    def rs(a):
        flat = list(a.ravel())
        res = np.empty(a.shape, dtype=a.dtype)
        for k, i in enumerate(np.ndindex(*a.shape)):
            res[i] = rest[k](*flat)
        return res

    x = (s * rs(x) + o) if cfg["order"] else rs(s * x + o)
    ok = tuple(out.img.shape) == tuple(x.shape)
    S.claim("concrete_stage_classes_compose_as_documented", S.and_(ok, S.eq(out.img, x) if ok else False))
    S.claim("concrete_reduced_result_is_scalar_image", isinstance(out, darsia.ScalarImage) and bool(out.scalar))
    S.claim("concrete_probe_unmodified", S.eq(P.img, probe))
    S.observe("out", out.img)
