"""C04 -- Wasserstein solvers return mass-conserving fluxes and self-consistent results.

Real code executed symbolically: VariationalWassersteinDistance.__init__/_setup_*/__call__,
linear_solve (full and pressure formulation), WassersteinDistanceNewton._solve/residual/
jacobian, WassersteinDistanceBregman._solve/_shrink/_update_regularization,
optimality_conditions, transport_density, l1_dissipation, cell_weighted_flux,
AndersonAcceleration.__call__, the FV operators and Grid.
Symbolic: the mass difference (zero mean), every inner linear-solve result (a fresh vector
constrained by the system the real code assembled), the face weights (arbitrary positive,
fresh per call: an over-approximation of all five mobility modes), Anderson's mixing
coefficients (any), and the FAULT INDEX (a symbolic integer: the k-th inner solve raises).
"""
import itertools

import numpy as np

from symx import api as S

PROPERTY = "C04"
OPTIONS = dict(validate=8, query_timeout_ms=30000, path_wall_s=900, max_paths=600, vacuity_timeout_ms=4000, warmup="first")
STUBS = [
    "inner linear solves: exact (fresh vector x with A x = b for the matrix the real code assembled); the k-th solve raises for the fault runs",
    "_compute_face_weight: on (3,)/(2,) grids arbitrary positive weights, fresh per call (sound over-approximation of the five mobility modes); on the other grids fixed distinct positive rationals that change from call to call (keeps every system linear)",
    "np.linalg.norm: uninterpreted non-negative function of its argument (stopping test, transport density)",
    "Anderson's scipy.linalg.lstsq: ANY coefficient vector",
    "l1_dissipation: uninterpreted function of the flux for the control-flow claims; its real body for the derived outputs",
]
OUTSIDE = ["convergence of the iteration", "AMG/CG tolerances, PETSc", "grids beyond the stated bound", "the value of the mobility weights"]
ASSUMPTIONS = ["source and destination have equal mass", "exact linear solver", "cell weight positive"]

VOX = [0.5, 0.25, 2.0]


def bounds(tier):
    if tier == "quick":
        return "grids (3,), (2,2), (1,3), (2,1,2); Newton / Bregman fixed / Bregman adaptive; num_iter <= 3; fault index symbolic in -1..num_iter (linear solve) ; Anderson depth 0 and 1; formulations full and pressure; scalar cell weight"
    return "every grid shape with <= 6 cells incl. (2,2,1), (6,), (1,1,3); num_iter <= 4; Anderson depth 0..2; faults in the linear solve and in the face-weight computation"


def configs(tier):
    out = []
    quick = tier == "quick"
    if quick:
        shapes = [[3], [2, 2], [1, 3], [2, 1, 2]]
        iters = [3]
    else:
        shapes = [[2], [3], [4], [6], [2, 2], [1, 3], [3, 1], [2, 3], [3, 2], [1, 1, 3], [2, 1, 2], [2, 2, 1], [1, 2, 3]]
        iters = [2, 4]
    for shape in shapes:
        for method in ("newton", "bregman", "bregman_adaptive"):
            for n in iters:
                for form in ("full", "pressure"):
                    for aa in ((0, 1) if quick else (0, 1, 2)):
                        if aa and (form == "pressure" or (quick and shape not in ([3], [2, 2]))):
                            continue
                        if form == "pressure" and quick and shape not in ([2, 2], [3]):
                            continue
                        out.append(dict(kind="solve", shape=shape, method=method, num_iter=n, form=form, aa=aa, fault="linear", weights="symbolic" if (shape in ([3], [2]) and form == "full" and not aa) else "concrete"))
                        if method != "newton" and not aa and (not quick or shape in ([2, 2], [3])):
                            for L, Li in (("1/2", "1/2"), ("2", "1/2"), ("1/2", "2")):
                                out.append(dict(kind="solve", shape=shape, method=method, num_iter=n, form=form, aa=0, fault="linear", weights="concrete", L=L, L_init=Li))
            if not quick or shape in ([2, 2], [3]):
                out.append(dict(kind="solve", shape=shape, method=method, num_iter=iters[0], form="full", aa=0, fault="weights", weights="concrete"))
    # concolic: concrete mass distributions through the REAL mobility and cost routines, the three
    # tolerances symbolic -- decides the stopping logic against the distances the code really produces
    for shape in ([[2, 2], [3, 2]] if quick else [[4], [2, 2], [3, 2], [3, 3], [2, 1, 2]]):
        for method in ("newton", "bregman", "bregman_adaptive"):
            for draw in ((0, 1) if quick else (0, 1, 2, 3)):
                for aa in (0, 2):
                    if aa and (draw or method == "bregman_adaptive"):
                        continue
                    out.append(dict(kind="stopping", shape=shape, method=method, num_iter=5 if quick else 7, aa=aa, draw=draw))
            # a solver OBJECT that has already solved another pair: the second solve must not depend on the first
            if shape == [2, 2] or not quick:
                out.append(dict(kind="stopping", shape=shape, method=method, num_iter=3 if quick else 4, aa=0, draw=5, second_call=True))
    # mass arrays that are not float64 (what images often are): evaluated on the plain import (reference run)
    for shape in ([[2, 2]] if quick else [[2, 2], [3, 2], [2, 1, 2]]):
        for method in ("newton", "bregman"):
            for form in ("full", "pressure"):
                for dt in ("float32", "int64"):
                    out.append(dict(kind="dtypes", shape=shape, method=method, form=form, dtype=dt, num_iter=4, aa=0))
    for shape in shapes + ([[1, 2, 2]] if quick else [[2, 2, 2]]):
        for method in ("newton", "bregman"):
            for mode in ("RAVIART_THOMAS", "CONSTANT_SUBCELL_PROJECTION", "CONSTANT_CELL_PROJECTION"):
                for wt in (False, True):
                    if quick and wt and mode != "RAVIART_THOMAS":
                        continue
                    if dict(kind="outputs", shape=shape, method=method, mode=mode, weighted=wt, weights="symbolic" if shape == [3] else "concrete") in out:
                        continue
                    out.append(dict(kind="outputs", shape=shape, method=method, mode=mode, weighted=wt, weights="symbolic" if shape == [3] else "concrete"))
    return out


def validate_filter(cfg):
    # instrumented runs use arbitrary face weights, the plain import the real mobility: only the
    # self-consistency claims of the "outputs" configurations are comparable between the two
    return cfg["kind"] in ("outputs", "stopping", "dtypes")


def validate_always(cfg):
    return cfg["kind"] == "dtypes"


# stub state (reset per body)
ST = dict(solve_calls=0, weight_calls=0, fault_at=None, fault_kind=None, fired=False)


class InjectedFault(RuntimeError):
    pass


def install_stubs():
    import darsia.measure.wasserstein as ws
    import darsia.utils.andersonacceleration as aa
    import darsia.utils.linalg as la
    from symx import sparse
    from symx.core import ENGINE
    from . import stubs

    stubs.install_linear_solver_stubs(ws, la, [])
    base_lu = ENGINE.splu_hook

    class FaultyLU(base_lu):
        def solve(self, b, **k):
            n = ST["solve_calls"]
            ST["solve_calls"] += 1
            if ST["fault_kind"] == "linear" and ST["fault_at"] is not None:
                if bool(S.eq(ST["fault_at"], n)):
                    ST["fired"] = True
                    raise InjectedFault(f"inner linear solve {n}")
            return super().solve(b, **k)

    ENGINE.splu_hook = FaultyLU
    from . import c06

    c06.install_stubs()  # scipy.stats.hmean on object arrays

    real_sp = aa.sp

    class _L:
        def __getattr__(self, n):
            return getattr(real_sp.linalg, n)

        @staticmethod
        def lstsq(A, b, *a, **k):
            from symx import npx

            if npx.has_sym(A) or npx.has_sym(b):
                m = A.shape[1]
                if S.symbolic() and not ENGINE.const_mode:
                    g = S.fresh("gamma", m)
                else:
                    Af = np.array([[S.tofloat(v) for v in row] for row in A], dtype=float)
                    bf = np.array([S.tofloat(v) for v in b], dtype=float)
                    gf = real_sp.linalg.lstsq(Af, bf)[0]
                    g = np.array([S.const(float(v)) for v in gf], dtype=object)
                return g, None, None, None
            return real_sp.linalg.lstsq(A, b, *a, **k)

    class _SP:
        linalg = _L()

        def __getattr__(self, n):
            return getattr(real_sp, n)

    aa.sp = _SP()


def _norm_uf():
    """np.linalg.norm as an uninterpreted non-negative function of its argument"""
    import z3

    from symx.core import ENGINE, SymReal, rterm

    fns = {}

    def hook(x, ord, axis):
        def one(vec):
            args = [z3.simplify(rterm(e), som=True) for e in vec]
            if all(z3.is_rational_value(a) and a.numerator_as_long() == 0 for a in args):
                return 0.0
            if all(z3.is_rational_value(a) for a in args):
                # constants (translator validation): the real value
                import math
                from fractions import Fraction

                return S.const(math.sqrt(sum(float(Fraction(a.numerator_as_long(), a.denominator_as_long())) ** 2 for a in args)))
            k = len(args)
            if k not in fns:
                fns[k] = z3.Function(f"norm{k}", *([z3.RealSort()] * k), z3.RealSort())
            y = fns[k](*args)
            ENGINE.add(y >= 0)
            return SymReal(y)

        x = np.asarray(x, dtype=object)
        if axis is None:
            return one(list(x.ravel()))
        xs = np.moveaxis(x, axis, -1)
        out = np.empty(xs.shape[:-1], dtype=object)
        for idx in np.ndindex(*xs.shape[:-1]):
            out[idx] = one(list(xs[idx]))
        return out

    ENGINE.abstract_norm = True
    ENGINE.norm_hook = hook


def _make(darsia, cfg, options, weight_img=None):
    import darsia.measure.wasserstein as ws

    shape = tuple(cfg["shape"])
    grid = darsia.Grid(shape, VOX[: len(shape)])
    cls = ws.WassersteinDistanceNewton if cfg["method"] == "newton" else ws.WassersteinDistanceBregman
    return grid, cls(grid, weight_img, options)


def _weights(cfg, k, nf):
    """face weights of the k-th mobility evaluation: symbolic (arbitrary positive) on the smallest
    grids, otherwise fixed distinct positive rationals that change from call to call"""
    if cfg.get("weights", "concrete") == "symbolic":
        if S.symbolic():
            w = S.fresh(f"fw{k}_", nf, hint=1)
            for x in w:
                S.add_constraint(S.and_(S.le(S.const("1/100"), x), S.le(x, 100)))
            return w
        return S.array(f"fw{k}", nf, lo="1/100", hi=100)
    w = np.empty(nf, dtype=object)
    for i in range(nf):
        w[i] = S.const(f"{1 + (7 * k + 3 * i) % 5}/4")
    return w


def _mass(nc, name="f"):
    dt = object if S.instrumented() else float
    f = np.zeros(nc, dtype=dt)
    fr = S.array(name, nc - 1, lo=-10, hi=10) if nc > 1 else np.zeros(0)
    f[: nc - 1] = fr
    tot = 0
    for x in fr:
        tot = tot + x
    f[nc - 1] = -tot
    return f


def body(cfg):
    import darsia

    ST.update(solve_calls=0, weight_calls=0, fault_at=None, fault_kind=None, fired=False)
    if S.instrumented():
        _norm_uf()
    if cfg["kind"] == "outputs":
        return body_outputs(cfg, darsia)
    if cfg["kind"] == "stopping":
        return body_stopping(cfg, darsia)
    if cfg["kind"] == "dtypes":
        return body_dtypes(cfg, darsia)
    n_it = cfg["num_iter"]
    opts = {"formulation": cfg["form"], "linear_solver": "direct", "num_iter": n_it, "aa_depth": cfg["aa"]}
    if cfg["method"] == "bregman_adaptive":
        opts["bregman_update"] = lambda it: it % 2 == 1
    if "L" in cfg:
        from fractions import Fraction

        opts["L"] = float(Fraction(cfg["L"]))
        opts["L_init"] = float(Fraction(cfg["L_init"]))
    # finite tolerances so that the stopping test really decides
    opts.update(tol_residual=0.5, tol_increment=0.5, tol_distance=0.5)
    grid, w1 = _make(darsia, cfg, opts)
    nf, nc = int(grid.num_faces), int(grid.num_cells)
    f = _mass(nc)

    # ---- face weights: arbitrary positive, fresh for every call (plain mode: the real routine)
    if S.instrumented():
        def cfw(flat_flux):
            k = ST["weight_calls"]
            ST["weight_calls"] += 1
            if ST["fault_kind"] == "weights" and ST["fault_at"] is not None and bool(S.eq(ST["fault_at"], k)):
                ST["fired"] = True
                raise InjectedFault(f"face weights {k}")
            w = _weights(cfg, k, nf)
            return w, 1.0 / w
        w1._compute_face_weight = cfw
        # distance functional: uninterpreted function of the flux (control flow only)
        L = S.uf("L1cost", nf) if nf > 0 else None
        w1.l1_dissipation = (lambda flux: L(*list(flux))) if nf > 0 else (lambda flux: 0.0)
    else:
        real_cfw = w1._compute_face_weight

        def cfw(flat_flux):
            k = ST["weight_calls"]
            ST["weight_calls"] += 1
            if ST["fault_kind"] == "weights" and ST["fault_at"] is not None and ST["fault_at"] == k:
                ST["fired"] = True
                raise InjectedFault(f"face weights {k}")
            return real_cfw(flat_flux)
        w1._compute_face_weight = cfw
        real_ls = w1.linear_solve

        def ls(matrix, rhs, previous_solution=None, reuse_solver=False):
            n = ST["solve_calls"]
            ST["solve_calls"] += 1
            if ST["fault_kind"] == "linear" and ST["fault_at"] is not None and ST["fault_at"] == n:
                ST["fired"] = True
                raise InjectedFault(f"inner linear solve {n}")
            return real_ls(matrix, rhs, previous_solution, reuse_solver)
        w1.linear_solve = ls

    # ---- the fault index: -1 = no fault; the initial Darcy solve (call 0) is outside the iteration
    max_calls = 2 * n_it + 2
    k = S.integer("fault_k", -1, max_calls)
    ST["fault_kind"] = cfg["fault"]
    ST["fault_at"] = None
    if bool(S.not_(S.eq(k, -1))) if S.symbolic() else (k != -1):
        if cfg["fault"] == "linear":
            S.assume(S.le(1, k))  # the initial solve is not an "inner step of an iteration"
        ST["fault_at"] = k
    try:
        dist, sol, info = w1._solve(f)
    except InjectedFault:
        # a failure outside the guarded iteration (e.g. in the final pressure recovery) is outside the claim
        raise S.HarnessSkip("fault outside the iteration")
    flux = sol[:nf]
    # ---- claims
    mb = w1.div.dot(flux) - w1.mass_matrix_cells.dot(f)
    S.claim("returned_flux_satisfies_mass_balance", S.eq(mb, 0))
    S.claim("distance_is_transport_cost_of_returned_flux", S.eq(dist, w1.l1_dissipation(flux)))
    c = int(w1.constrained_cell_flat_index)
    S.claim("pressure_pinned_at_reference_cell", S.eq(sol[nf + c], 0))
    hist = info["convergence_history"]
    conv = info["converged"]
    if ST["fired"]:
        S.claim("failed_inner_step_is_flagged_non_converged", S.not_(conv) if S.symbolic() else (not conv))
    n_rec = len(hist["distance"])
    # "converged" only if the stopping criteria were met in the last executed iteration
    if cfg["method"] == "newton":
        if n_rec >= 1:
            crit = S.and_(n_rec > 2, S.lt(hist["residual"][-1], 0.5 * hist["residual"][0]), S.lt(hist["flux_increment"][-1], 0.5 * hist["flux_increment"][0]), S.lt(hist["distance_increment"][-1], 0.5))
        else:
            crit = S.false()
    else:
        if n_rec >= 1:
            crit = S.and_(n_rec > 2, S.lt(hist["aux_force_increment"][-1], 0.5 * hist["aux_force_increment"][0]), S.lt(hist["distance_increment"][-1] / dist if n_rec else 0, 0.5), S.lt(hist["mass_conservation_residual"][-1], 0.5))
        else:
            crit = S.false()
    S.claim("reported_converged_only_if_stopping_criteria_met", S.implies(conv, crit))
    S.observe("fired", bool(ST["fired"]))


def body_dtypes(cfg, darsia):
    """float32 / integer mass arrays: the claims are evaluated with concrete data on the plain import only
    (numeric dtypes do not exist on the symbolic side); the instrumented modes only name them"""
    names = ("dtype_run_conserves_mass", "dtype_run_distance_is_cost_of_returned_flux", "dtype_run_agrees_with_the_float64_run")
    if S.instrumented():
        for nme in names:
            S.claim(nme, True)
        return
    shape = tuple(cfg["shape"])
    nc = int(np.prod(shape))
    rng = np.random.default_rng(31)
    vals = rng.integers(-9, 10, size=nc - 1)
    f64 = np.array(list(vals) + [-int(vals.sum())], dtype=float)
    f = f64.astype(cfg["dtype"])
    opts = {"formulation": cfg["form"], "linear_solver": "direct", "num_iter": cfg["num_iter"], "aa_depth": 0}
    grid, w1 = _make(darsia, cfg, dict(opts))
    _, w2 = _make(darsia, cfg, dict(opts))
    nf = int(grid.num_faces)
    dist, sol, info = w1._solve(f)
    dist64, sol64, _ = w2._solve(f64)
    flux = np.asarray(sol[:nf], dtype=float)
    mb = w1.div.dot(flux) - w1.mass_matrix_cells.dot(f64)
    scale = 1.0 + float(np.abs(f64).max())
    S.claim(names[0], bool(np.abs(mb).max() <= 1e-12 * scale))
    S.claim(names[1], bool(abs(float(dist) - float(w1.l1_dissipation(flux))) <= 1e-12 * (1 + abs(float(dist)))))
    tol = 1e-5 if cfg["dtype"] == "float32" else 1e-12
    S.claim(names[2], bool(abs(float(dist) - float(dist64)) <= tol * (1 + abs(float(dist64))) and np.abs(np.asarray(sol, dtype=float) - np.asarray(sol64, dtype=float)).max() <= tol * (1 + np.abs(np.asarray(sol64, dtype=float)).max())))


def body_stopping(cfg, darsia):
    """concrete data, real mobility / cost / shrinkage; symbolic tolerances"""
    from symx.core import ENGINE

    if S.symbolic():
        ENGINE.const_mode = True  # numeric sqrt / norm / linear solve on constants
    rng = np.random.default_rng(100 + cfg["draw"])
    shape = tuple(cfg["shape"])
    nc = int(np.prod(shape))
    vals = [int(v) for v in rng.integers(-40, 41, size=nc - 1)]
    f = np.zeros(nc, dtype=object if S.instrumented() else float)
    for i, v in enumerate(vals):
        f[i] = S.const(f"{v}/8")
    f[nc - 1] = S.const(f"{-sum(vals)}/8")
    tr = S.real("tol_residual", lo="1/1000000", hi=2)
    ti = S.real("tol_increment", lo="1/1000000", hi=2)
    td = S.real("tol_distance", lo="1/1000000", hi=2)
    n_it = cfg["num_iter"]
    opts = {"formulation": "full", "linear_solver": "direct", "num_iter": n_it, "aa_depth": cfg["aa"], "tol_residual": tr, "tol_increment": ti, "tol_distance": td}
    if cfg["method"] == "bregman_adaptive":
        opts["bregman_update"] = lambda it: it % 2 == 1
    grid, w1 = _make(darsia, cfg, opts)
    nf = int(grid.num_faces)
    if cfg.get("second_call"):
        vals0 = [int(v) for v in rng.integers(-40, 41, size=nc - 1)]
        f0 = np.zeros(nc, dtype=object if S.instrumented() else float)
        for i, v in enumerate(vals0):
            f0[i] = S.const(f"{3 * v}/8")
        f0[nc - 1] = S.const(f"{-3 * sum(vals0)}/8")
        w1._solve(f0)  # an earlier, "bigger" pair on the same object
    dist, sol, info = w1._solve(f)
    hist = info["convergence_history"]
    conv = info["converged"]
    n_rec = len(hist["distance"])
    if cfg.get("second_call"):
        _, wf = _make(darsia, cfg, dict(opts))
        dist_f, sol_f, info_f = wf._solve(f)
        S.claim("second_solve_on_a_used_object_equals_a_fresh_object", S.and_(S.eq(dist, dist_f), S.eq(sol, sol_f), S.iff(conv, info_f["converged"]) if S.symbolic() else bool(conv) == bool(info_f["converged"]), n_rec == len(info_f["convergence_history"]["distance"])))
    S.claim("concolic_distance_is_cost_of_returned_flux", S.eq(dist, w1.l1_dissipation(sol[:nf])))
    if cfg["method"] == "newton":
        crit = S.and_(n_rec > 2, S.lt(hist["residual"][-1], tr * hist["residual"][0]), S.lt(hist["flux_increment"][-1], ti * hist["flux_increment"][0]), S.lt(hist["distance_increment"][-1], td)) if n_rec else S.false()
    else:
        crit = S.and_(n_rec > 2, S.lt(hist["aux_force_increment"][-1], ti * hist["aux_force_increment"][0]), S.lt(hist["distance_increment"][-1], td * dist), S.lt(hist["mass_conservation_residual"][-1], tr)) if n_rec else S.false()
    S.claim("concolic_converged_only_if_stopping_criteria_met_for_these_tolerances", S.implies(conv, crit))
    S.claim("concolic_criteria_met_in_last_iteration_implies_converged", S.implies(crit, conv))
    S.claim("concolic_not_converged_runs_all_iterations", S.or_(conv, n_rec == n_it + (1 if cfg["method"] == "newton" else 0), n_rec == n_it))
    S.claim("concolic_recorded_increments_are_nonnegative", S.and_([S.le(0, x) for x in hist["distance_increment"]]))
    S.observe("n_rec", n_rec)


def body_outputs(cfg, darsia):
    """auxiliary outputs of __call__ derive from the returned solution"""
    import darsia.measure.wasserstein as ws

    shape = tuple(cfg["shape"])
    dim = len(shape)
    dims = [VOX[m] * shape[m] for m in range(dim)]
    nc = int(np.prod(shape))
    f = _mass(nc)
    dt = object if S.instrumented() else float
    m1 = np.zeros(shape, dtype=dt)
    m2 = f.reshape(shape, order="F")
    I1 = darsia.Image(m1, dimensions=dims, space_dim=dim, scalar=True)
    I2 = darsia.Image(m2.copy(), dimensions=dims, space_dim=dim, scalar=True)
    weight = None
    if cfg["weighted"]:
        cw = S.real("cw", lo="1/10", hi=10)
        wa = np.empty(shape, dtype=dt)
        wa[...] = cw
        weight = darsia.Image(wa, dimensions=dims, space_dim=dim, scalar=True)
    opts = {"formulation": "full", "linear_solver": "direct", "num_iter": 2, "return_info": True, "l1_mode": getattr(ws.L1Mode, cfg["mode"])}
    grid = darsia.generate_grid(I1)
    cls = ws.WassersteinDistanceNewton if cfg["method"] == "newton" else ws.WassersteinDistanceBregman
    w1 = cls(grid, weight, opts)
    nf = int(grid.num_faces)
    if S.instrumented():
        cnt = [0]

        def cfw(flat_flux):
            cnt[0] += 1
            w = _weights(cfg, cnt[0], nf)
            return w, 1.0 / w
        w1._compute_face_weight = cfw
    captured = {}
    real_solve = w1._solve

    def spy(fm):
        d, s, i = real_solve(fm)
        captured["sol"] = s.copy()
        captured["dist"] = d
        return d, s, i
    w1._solve = spy
    dist, info = w1(I1, I2)
    sol = captured["sol"]
    flux = sol[:nf]
    S.claim("distance_returned_is_the_solver_distance", S.eq(dist, captured["dist"]))
    S.claim("distance_is_l1_dissipation_of_returned_flux", S.eq(dist, w1.l1_dissipation(flux)))
    S.claim("cell_flux_is_reconstruction_of_returned_flux", S.eq(info["flux"], darsia.face_to_cell(grid, flux)))
    S.claim("pressure_is_the_returned_pressure", S.eq(info["pressure"], sol[nf : nf + nc].reshape(shape, order="F")))
    S.claim("transport_density_belongs_to_returned_flux", S.eq(info["transport_density"], w1.transport_density(flux, flatten=False)))
    # independent oracle: quadrature of the norm of the RT0 reconstruction (1-p) u_left + p u_right
    from . import oracles as O

    if cfg["mode"] == "RAVIART_THOMAS":
        qp, qw = darsia.quadrature.gauss_reference_cell(dim, "max")
    elif cfg["mode"] == "CONSTANT_SUBCELL_PROJECTION":
        qp, qw = darsia.quadrature.reference_cell_corners(dim)
    else:
        qp, qw = darsia.quadrature.gauss_reference_cell(dim, 0)
    qp = np.asarray(qp).reshape(len(qw), dim)
    lin = np.linalg if not S.instrumented() else __import__("symx.npx", fromlist=["NP"]).NP.linalg
    td = np.zeros(shape, dtype=dt)
    for cidx in O.cells(shape):
        acc = 0
        for q in range(len(qw)):
            vec = []
            for d in range(dim):
                fr, fl = O.face_right(d, cidx, shape), O.face_left(d, cidx, shape)
                ur = flux[fr] if fr is not None else 0.0
                ul = flux[fl] if fl is not None else 0.0
                comp = (1 - qp[q, d]) * ul + qp[q, d] * ur
                if cfg["weighted"]:
                    comp = comp * cw
                vec.append(comp)
            acc = acc + qw[q] * lin.norm(np.array(vec + [None], dtype=object)[:-1] if S.instrumented() else np.array(vec, dtype=float), 2)
        td[cidx] = acc
    S.claim("transport_density_is_quadrature_of_the_rt0_flux_norm", S.eq(info["transport_density"], td))
    cw_ = w1.cell_weights
    exp_w = info["flux"] * (cw_[..., np.newaxis] if cfg["weighted"] else 1)
    S.claim("weighted_flux_is_weight_times_cell_flux", S.eq(info["weighted_flux"], exp_w))
    S.claim("mass_diff_output", S.eq(info["mass_diff"], m2 - m1))
    S.claim("distance_is_cell_volume_times_sum_of_transport_density", S.eq(dist, float(np.prod(VOX[:dim])) * np.sum(info["transport_density"])))
    mb = w1.div.dot(flux) - w1.mass_matrix_cells.dot(f)
    S.claim("returned_flux_satisfies_mass_balance", S.eq(mb, 0))
    c = int(w1.constrained_cell_flat_index)
    S.claim("pressure_pinned_at_reference_cell", S.eq(sol[nf + c], 0))
