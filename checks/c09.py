"""C09 -- coordinate transformations are invertible and move voxels exactly.

Real code executed symbolically: AffineTransformation.set_parameters /
set_parameters_as_vector / call_array / inverse_array, BaseTransformation.__call__ /
inverse / set_dtype, TransformationCorrection.correct_array,
CoordinateTransformation.correct_metadata / __call__, RotationCorrection.__init__, the
typed point conversions.
Symbolic: translation, scaling s > 0, (cos, sin) of every rotation angle with c^2+s^2 = 1
(so several non-zero angles at once are covered), points (single and batch), image data.
For the warp claims the map is concrete (identity / whole-voxel shift / quarter turn) and
the pixel data symbolic.
"""
import itertools
import math
from fractions import Fraction

import numpy as np

from symx import api as S
from . import oracles as O

PROPERTY = "C09"
OPTIONS = dict(validate=12, query_timeout_ms=60000)
STUBS = [
    "scipy Rotation.from_rotvec(theta * e_k).as_matrix() = elementary rotation about axis k with fresh (c, s), c^2 + s^2 = 1",
    "AffineTransformation.fit (Powell) is bypassed: parameters enter through set_parameters_as_vector",
]
OUTSIDE = ["fitted maps (optimiser)", "generalised perspective maps", "IEEE rounding of voxel-centre images under rotation"]
ASSUMPTIONS = ["scaling in (1/10, 10)", "warp maps: identity, whole-voxel shifts in [-(n+1), n+1], quarter turns"]


def bounds(tier):
    return ("affine algebra: dim 2 and 3 with all angles symbolic, batch of 2 points + single point; warp: shapes %s, payload scalar / vector / series, maps typed as Coordinate / Voxel / VoxelCenter, every whole-voxel shift in [-(n+1), n+1]^2 (3-D: axis shifts), quarter turns in 2-D, source != destination shape and voxel size for coordinate-typed identity"
            % ("3x4, 2x2, 2x3x2" if tier == "quick" else "3x4, 2x2, 4x3, 5x5, 1x3, 2x3x2, 2x2x3"))


class Angle:
    """a rotation angle carried as (cos, sin)"""

    def __init__(self, c, s):
        self.c, self.s = c, s

    def __mul__(self, o):
        if isinstance(o, np.ndarray):
            return RotVec(self, o)
        if o in (1, 1.0):
            return self
        if o in (-1, -1.0):
            return Angle(self.c, -self.s)
        raise ValueError("angle scaling")

    __rmul__ = __mul__

    def __neg__(self):
        return Angle(self.c, -self.s)


class RotVec:
    def __init__(self, ang, vec):
        self.ang, self.vec = ang, vec


def _rotstub(real):
    class RotStub:
        def __init__(self, M):
            self.M = M

        @staticmethod
        def from_rotvec(rv, *a, **k):
            if not isinstance(rv, RotVec):
                return real.from_rotvec(rv, *a, **k)
            v = np.asarray(rv.vec, dtype=float)
            k_ = int(np.argmax(np.abs(v)))
            assert abs(abs(v[k_]) - 1) < 1e-12 and np.count_nonzero(v) == 1, "axis-aligned rotation vectors only"
            sign = 1 if v[k_] > 0 else -1
            c, sn = rv.ang.c, rv.ang.s * sign
            M = np.empty((3, 3), dtype=object)
            M[...] = 0.0
            i, j = [(1, 2), (2, 0), (0, 1)][k_]
            M[k_, k_] = 1.0
            M[i, i] = c
            M[j, j] = c
            M[i, j] = -sn
            M[j, i] = sn
            return RotStub(M)

        def as_matrix(self):
            return self.M

        def __getattr__(self, n):
            return getattr(real, n)

    return RotStub


PARAMS = {}


def install_stubs():
    import darsia.corrections.shape.affine as aff
    import darsia.corrections.shape.rotation as rot

    aff.Rotation = _rotstub(aff.Rotation)
    rot.Rotation = _rotstub(rot.Rotation)
    _patch_fit()


FIT_CALLS = []


def _patch_fit():
    import darsia.corrections.shape.affine as aff

    def fit(self, pts_src, pts_dst, fit_options={}):
        # the optimiser is outside the claim: the harness supplies the parameters
        FIT_CALLS.append((pts_src, pts_dst, dict(fit_options)))
        self.set_dtype(pts_src, pts_dst)
        self.isometry = fit_options.get("isometry", False)
        self.set_parameters_as_vector(PARAMS["vector"])
        return True

    aff.AffineTransformation.fit = fit


def configs(tier):
    out = []
    for dim in (2, 3):
        out.append(dict(kind="affine", dim=dim))
        out.append(dict(kind="typed", dim=dim))
    out.append(dict(kind="rotcorr", dim=2))
    out.append(dict(kind="rotcorr", dim=3))
    quick = tier == "quick"
    shapes2 = [[3, 4], [2, 2]] + ([] if quick else [[4, 3], [5, 5], [1, 3], [3, 1], [2, 5]])
    shapes3 = [[2, 3, 2]] + ([] if quick else [[2, 2, 3], [1, 2, 2], [3, 2, 1]])
    for shape in shapes2:
        for dt in ("Coordinate", "Voxel", "VoxelCenter"):
            for payload in (("scalar", "vector", "series") if shape == [3, 4] else ("scalar",)):
                rng = range(-(shape[0] + 1), shape[0] + 2)
                rng1 = range(-(shape[1] + 1), shape[1] + 2)
                shifts = [(a, b) for a in rng for b in rng1]
                if quick or payload != "scalar":
                    shifts = [s for s in shifts if s[0] in (-(shape[0] + 1), -1, 0, 1, shape[0]) and s[1] in (-(shape[1] + 1), -2, 0, 1, shape[1] - 1)]
                for sh in shifts:
                    out.append(dict(kind="warp", shape=shape, dtype=dt, payload=payload, map="shift", shift=list(sh)))
            for q in (1, 2, 3):
                # voxel-typed maps send voxel corners to voxel corners: on those boundaries the source
                # voxel is decided by floating-point rounding of cos/sin, which is outside the claim
                if dt != "Voxel":
                    out.append(dict(kind="warp", shape=shape, dtype=dt, payload="scalar", map="quarter", turns=q))
    for shape in shapes3:
        for dt in ("Coordinate", "Voxel", "VoxelCenter"):
            for ax in range(3):
                for k in (-(shape[ax] + 1), -1, 0, 1, shape[ax]):
                    sh = [0, 0, 0]
                    sh[ax] = k
                    out.append(dict(kind="warp", shape=shape, dtype=dt, payload="scalar", map="shift", shift=sh))
    for src, dst in (([3, 4], [6, 8]), ([4, 4], [2, 2]), ([3, 4], [3, 4]), ([2, 3], [4, 3])):
        out.append(dict(kind="resample", src=src, dst=dst, via="correction"))
        out.append(dict(kind="resample", src=src, dst=dst, via="coordinate_transformation"))
    # 3-D: the result of a coordinate transformation carries the DESTINATION system's geometry (origin incl. the reverted z)
    out.append(dict(kind="relabel3d"))
    # what AffineCorrection hands to the fit: with isometry the points travel as physical coordinates, each in ITS system
    for dim in (2, 3):
        for iso in (True, False):
            out.append(dict(kind="fit_inputs", dim=dim, isometry=iso))
    return out


def seed_values(cfg, rng):
    """unit-circle points with rational coordinates for the seeded constant runs"""
    vals = {}
    for k in range(3):
        u = Fraction(rng.randint(-8, 8), rng.randint(3, 9))
        vals[f"c{k}"] = str((1 - u * u) / (1 + u * u))
        vals[f"s{k}"] = str(2 * u / (1 + u * u))
    return vals


def _angles(n):
    out = []
    for k in range(n):
        c, s = S.real(f"c{k}", lo=-1, hi=1), S.real(f"s{k}", lo=-1, hi=1)
        S.assume(S.eq(c * c + s * s, 1), check=False)
        out.append((c, s))
    return out


def _as_param(cs):
    """the object the real code receives as 'angle'"""
    c, s = cs
    if S.instrumented():
        return Angle(c, s)
    return math.atan2(S.tofloat(s), S.tofloat(c))


def body_relabel3d(cfg, darsia):
    shape = (2, 2, 2)
    dims = [2.0, 4.0, 1.0]
    # concrete, equal origins (a symbolic origin would make the validity mask of the warp symbolic); the
    # destination label is still non-trivial: origin = (xmin, ymax, zmax) of the destination domain
    org_s = [1.0, 12.0, 7.0]
    org_d = [1.0, 12.0, 7.0]
    a = S.array("a", shape, lo=-10, hi=10)
    img = darsia.Image(a.copy(), dimensions=list(dims), origin=list(org_s), space_dim=3, scalar=True)
    dimg = darsia.Image(np.zeros(shape), dimensions=list(dims), origin=list(org_d), space_dim=3, scalar=True)
    pts = darsia.make_coordinate(np.array([[0.0, 0.0, 0.0], [1.0, 2.0, 0.5], [2.0, 1.0, 1.0]]))
    PARAMS["vector"] = np.array([0.0, 0.0, 0.0, 1.0, 0.0, 0.0, 0.0])
    ct = darsia.CoordinateTransformation(img.coordinatesystem, dimg.coordinatesystem, pts, pts)
    res = ct(img)
    S.claim("result_is_labelled_with_the_destination_system_in_3d", S.and_(S.eq(list(res.dimensions), list(dimg.dimensions)), S.eq(list(res.origin), org_d), S.eq(res.voxel_size, dimg.voxel_size), tuple(res.img.shape) == shape))
    S.claim("coordinate_transformation_leaves_input", S.and_(S.eq(img.img, a), S.eq(list(img.origin), org_s)))


def body_fit_inputs(cfg, darsia):
    from . import oracles as O

    dim = cfg["dim"]
    orient = O.ORIENT[dim]
    sh_s, sh_d = ((2, 3), (3, 4)) if dim == 2 else ((2, 2, 3), (3, 2, 4))

    def system(tag, shape):
        dims = [S.real(f"{tag}d{m}", lo="1/10", hi=10) for m in range(dim)]
        org = [S.real(f"{tag}o{m}", lo=-5, hi=5) for m in range(dim)]
        im = darsia.Image(np.zeros(shape), dimensions=list(dims), origin=list(org), space_dim=dim, scalar=True)
        return im.coordinatesystem, dims, org, shape

    cs_s, d_s, o_s, _ = system("s", sh_s)
    cs_d, d_d, o_d, _ = system("t", sh_d)
    vs = np.array([[0] * dim, [1] * dim, [1, 0, 1][:dim]])
    vd = np.array([[1] * dim, [2] * dim, [0, 1, 2][:dim]])
    PARAMS["vector"] = [0.0] * (dim + (1 if dim == 2 else 3)) + ([] if cfg["isometry"] else [1.0])
    del FIT_CALLS[:]
    darsia.AffineCorrection(cs_s, cs_d, darsia.make_voxel(vs), darsia.make_voxel(vd), fit_options={"isometry": cfg["isometry"]})
    ps, pd, opts = FIT_CALLS[-1]

    def centres(vox, dims, org, shape):
        out = []
        for v in vox:
            c = [0] * dim
            for m in range(dim):
                a, sg = orient[m]
                c[a] = org[a] + sg * (int(v[m]) + S.const("1/2")) * dims[m] / shape[m]
            out.append(c)
        return out

    if cfg["isometry"]:
        S.claim("isometry_fit_receives_source_points_as_coordinates_of_the_source_system", S.eq([list(x) for x in np.asarray(ps)], centres(vs, d_s, o_s, sh_s)))
        S.claim("isometry_fit_receives_destination_points_as_coordinates_of_the_destination_system", S.eq([list(x) for x in np.asarray(pd)], centres(vd, d_d, o_d, sh_d)))
    else:
        S.claim("voxel_fit_receives_the_points_unchanged", S.and_(bool(np.array_equal(np.asarray(ps), vs)), bool(np.array_equal(np.asarray(pd), vd))))
    S.claim("fit_options_are_passed_on", opts.get("isometry", False) == cfg["isometry"])


def body(cfg):
    import darsia

    _patch_fit()
    k = cfg["kind"]
    if k == "affine":
        return body_affine(cfg, darsia)
    if k == "typed":
        return body_typed(cfg, darsia)
    if k == "rotcorr":
        return body_rotcorr(cfg, darsia)
    if k == "warp":
        return body_warp(cfg, darsia)
    if k == "fit_inputs":
        return body_fit_inputs(cfg, darsia)
    if k == "relabel3d":
        return body_relabel3d(cfg, darsia)
    return body_resample(cfg, darsia)


def _eye(dim):
    return [[1 if i == j else 0 for j in range(dim)] for i in range(dim)]


def _mat_claims(prefix, R, Rinv, dim):
    dt = object if S.instrumented() else float
    R = np.asarray(R, dtype=dt)
    Rinv = np.asarray(Rinv, dtype=dt)
    I = np.array(_eye(dim), dtype=dt)
    S.claim(prefix + "rotation_is_orthonormal", S.eq(R.dot(R.T), I))
    if dim == 2:
        det = R[0, 0] * R[1, 1] - R[0, 1] * R[1, 0]
    else:
        det = (R[0, 0] * (R[1, 1] * R[2, 2] - R[1, 2] * R[2, 1]) - R[0, 1] * (R[1, 0] * R[2, 2] - R[1, 2] * R[2, 0]) + R[0, 2] * (R[1, 0] * R[2, 1] - R[1, 1] * R[2, 0]))
    S.claim(prefix + "rotation_has_determinant_one", S.eq(det, 1))
    S.claim(prefix + "stored_inverse_rotation_inverts_the_rotation", S.and_(S.eq(Rinv.dot(R), I), S.eq(R.dot(Rinv), I)))


def body_affine(cfg, darsia):
    dim = cfg["dim"]
    nrot = 1 if dim == 2 else 3
    ang = _angles(nrot)
    t = [S.real(f"t{m}", lo=-100, hi=100) for m in range(dim)]
    sc = S.real("sc", lo="1/10", hi=10)
    A = darsia.AffineTransformation(dim)
    dt = object if S.instrumented() else float
    A.set_parameters(np.array(t, dtype=dt), sc, [_as_param(a) for a in ang])
    _mat_claims("", A.rotation, A.rotation_inv, dim)
    x = S.array("x", (2, dim), lo=-100, hi=100)
    y = A.call_array(x)
    S.observe("y", y)
    S.claim("inverse_after_call_is_identity", S.eq(A.inverse_array(y), x))
    S.claim("call_after_inverse_is_identity", S.eq(A.call_array(A.inverse_array(x)), x))
    R = np.asarray(A.rotation, dtype=dt)
    exp = np.empty((2, dim), dtype=dt)
    for i in range(2):
        for m in range(dim):
            acc = 0
            for n_ in range(dim):
                acc = acc + R[m, n_] * x[i, n_]
            exp[i, m] = t[m] + sc * acc
    S.claim("call_is_translation_plus_scaled_rotation", S.eq(y, exp))
    zero = np.zeros((1, dim), dtype=dt)
    S.claim("origin_maps_to_translation", S.eq(A.call_array(zero)[0], t))
    d = y[0] - y[1]
    dx = x[0] - x[1]
    S.claim("distances_scale_by_the_scaling_factor", S.eq(sum(d[m] * d[m] for m in range(dim)), sc * sc * sum(dx[m] * dx[m] for m in range(dim))))
    # documented rotation: 2-D angle about the third axis, counter-clockwise in the array's first two axes
    if dim == 2:
        c, s = ang[0]
        S.claim("rotation_matrix_2d_as_documented", S.eq(R, np.array([[c, -s], [s, c]], dtype=dt)))
    # parameter vector interface routes translation, scaling, rotation in this order
    B = darsia.AffineTransformation(dim)
    vec = np.array(list(t) + [sc] + [_as_param(a) for a in ang], dtype=object if S.instrumented() else float)
    B.set_parameters_as_vector(vec)
    S.claim("parameter_vector_routes_translation_scaling_rotation", S.eq(B.call_array(x), y))
    # single point through the public call
    p = A(x[0])
    S.claim("single_point_call_equals_batch_row", S.and_(S.eq(list(p), list(y[0])), np.shape(p) == (dim,)))
    S.claim("single_point_inverse", S.eq(list(A.inverse(p)), list(x[0])))
    S.claim("neutral_parameters_are_the_identity", S.eq(darsia.AffineTransformation(dim).call_array(x), x))


def body_typed(cfg, darsia):
    """typed in/out conversion of BaseTransformation.__call__ / inverse"""
    dim = cfg["dim"]
    t = [S.integer(f"t{m}", -5, 5) for m in range(dim)]
    v = [[S.integer(f"v{i}{m}", -5, 5) for m in range(dim)] for i in range(2)]
    dt = object if S.instrumented() else float
    for name, mk, cls, acls in (("Voxel", darsia.make_voxel, darsia.Voxel, darsia.VoxelArray), ("VoxelCenter", darsia.make_voxel_center, darsia.VoxelCenter, darsia.VoxelCenterArray), ("Coordinate", darsia.make_coordinate, darsia.Coordinate, darsia.CoordinateArray)):
        A = darsia.AffineTransformation(dim)
        pts = mk([list(r) for r in v] if S.instrumented() else np.array(v, dtype=float))
        A.set_dtype(pts, pts)
        A.set_parameters(np.array(t, dtype=dt), 1.0, None)
        out = A(pts)
        half = S.const("1/2") if name == "VoxelCenter" else 0
        exp = [[v[i][m] + half + t[m] for m in range(dim)] for i in range(2)]
        S.claim(f"{name}_batch_translated", S.and_(isinstance(out, acls), S.eq(np.asarray(out), np.array(exp, dtype=dt))))
        one = A(pts[0])
        S.claim(f"{name}_single_translated", S.and_(type(one) is cls, S.eq(list(one), exp[0])))
        back = A.inverse(out)
        S.claim(f"{name}_inverse_returns_input_points", S.and_(isinstance(back, acls), S.eq(np.asarray(back), np.asarray(pts))))


def body_rotcorr(cfg, darsia):
    dim = cfg["dim"]
    ang = _angles(1 if dim == 2 else 3)
    if dim == 2:
        rc = darsia.RotationCorrection(anchor=[1, 1], rotations=[_as_param(ang[0])])
    else:
        rc = darsia.RotationCorrection(anchor=[1, 1, 1], rotations=[(_as_param(ang[0]), "x"), (_as_param(ang[1]), "y"), (_as_param(ang[2]), "z")])
    _mat_claims("rotation_correction_", rc.rotation, rc.rotation_inv, dim)


# ---------------------------------------------------------------- warps


def _payload(darsia, shape, payload, dims, org=None, name="a"):
    dim = len(shape)
    tail = {"scalar": (), "vector": (2,), "series": (2,)}[payload]
    a = S.array(name, tuple(shape) + tail, lo=-10, hi=10)
    kw = dict(dimensions=list(dims), space_dim=dim, scalar=(payload != "vector"), series=(payload == "series"))
    if payload == "series":
        kw["time"] = [0.0, 1.0]
    if org is not None:
        kw["origin"] = list(org)
    return darsia.Image(a.copy(), **kw), a


def _typed_pts(darsia, name, arr):
    return {"Voxel": darsia.make_voxel, "VoxelCenter": darsia.make_voxel_center, "Coordinate": darsia.make_coordinate}[name](arr)


def body_warp(cfg, darsia):
    shape = tuple(cfg["shape"])
    dim = len(shape)
    orient = O.ORIENT[dim]
    dims = [float(2 ** (m + 1)) * shape[m] / 4 for m in range(dim)]  # exactly representable voxel sizes
    h = [dims[m] / shape[m] for m in range(dim)]
    img, a = _payload(darsia, shape, cfg["payload"], dims)
    cs = img.coordinatesystem
    dtn = cfg["dtype"]
    T = darsia.AffineTransformation(dim)
    pts = _typed_pts(darsia, dtn, np.zeros((2, dim)) if dtn != "Coordinate" else np.zeros((2, dim)))
    T.set_dtype(pts, pts)
    if cfg["map"] == "shift":
        sh = cfg["shift"]
        if dtn == "Coordinate":
            tr = [0.0] * dim
            for m in range(dim):
                ax, sg = orient[m]
                tr[ax] = sg * sh[m] * h[m]
        else:
            tr = [float(x) for x in sh]
        T.set_parameters(np.array(tr, dtype=float), 1.0, None)
        exp = np.zeros(a.shape, dtype=a.dtype)
        for v in itertools.product(*[range(n) for n in shape]):
            s_ = tuple(v[m] - sh[m] for m in range(dim))
            if all(0 <= s_[m] < shape[m] for m in range(dim)):
                exp[v] = a[s_]
    else:
        # quarter turns about the point where all typed spaces agree on exactness: rotate in the map's own space
        q = cfg["turns"]
        T.set_parameters(np.zeros(dim), 1.0, [q * math.pi / 2])
        c, s = [(1, 0), (0, 1), (-1, 0), (0, -1)][q % 4]
        exp = np.zeros(a.shape, dtype=a.dtype)
        for v in itertools.product(*[range(n) for n in shape]):
            # destination voxel centre in the map's space
            if dtn == "Coordinate":
                p = [0.0, 0.0]
                for m in range(dim):
                    ax, sg = orient[m]
                    p[ax] = float(cs._coordinate_of_origin_voxel[ax]) + sg * (v[m] + 0.5) * h[m]
            else:
                p = [v[0] + 0.5, v[1] + 0.5] if dtn == "VoxelCenter" else [float(v[0]), float(v[1])]
            # inverse rotation (exact for quarter turns): R^T p
            src = [c * p[0] + s * p[1], -s * p[0] + c * p[1]]
            if dtn == "Coordinate":
                sv = [0, 0]
                for m in range(dim):
                    ax, sg = orient[m]
                    sv[m] = math.floor(sg * (src[ax] - float(cs._coordinate_of_origin_voxel[ax])) / h[m] + 1e-9)
            else:
                sv = [math.floor(src[0] + 1e-9), math.floor(src[1] + 1e-9)]
            if all(0 <= sv[m] < shape[m] for m in range(dim)):
                exp[v] = a[tuple(sv)]
    corr = darsia.TransformationCorrection(cs, cs, T)
    out = corr.correct_array(a.copy())
    S.claim("warp_moves_voxels_exactly", S.and_(tuple(out.shape) == tuple(exp.shape), S.eq(out, exp) if tuple(out.shape) == tuple(exp.shape) else False))
    out_img = corr(img)
    S.claim("warp_through_image_call_same_and_input_untouched", S.and_(S.eq(out_img.img, exp), S.eq(img.img, a)))
    S.observe("out", out)


def body_resample(cfg, darsia):
    """coordinate-typed identity between systems of different shape and voxel size; destination metadata"""
    src, dst = tuple(cfg["src"]), tuple(cfg["dst"])
    dims = [2.0, 4.0]
    org_s = [S.real("o0", lo=-10, hi=10), S.real("o1", lo=-10, hi=10)] if False else None
    img, a = _payload(darsia, src, "scalar", dims)
    dimg = darsia.Image(np.zeros(dst), dimensions=list(dims), space_dim=2, scalar=True)
    cs_s, cs_d = img.coordinatesystem, dimg.coordinatesystem
    exp = np.zeros(dst, dtype=a.dtype)
    for v in itertools.product(range(dst[0]), range(dst[1])):
        # physical centre of the destination voxel -> source voxel (same physical domain)
        f0 = Fraction(2 * v[0] + 1, 2 * dst[0]) * src[0]
        f1 = Fraction(2 * v[1] + 1, 2 * dst[1]) * src[1]
        sv = (math.floor(f0), math.floor(f1))
        if 0 <= sv[0] < src[0] and 0 <= sv[1] < src[1]:
            exp[v] = a[sv]
    pts = darsia.make_coordinate(np.array([[0.0, 0.0], [1.0, 2.0], [2.0, 1.0]]))
    PARAMS["vector"] = np.array([0.0, 0.0, 1.0, 0.0])
    if cfg["via"] == "correction":
        T = darsia.AffineTransformation(2)
        T.set_dtype(pts, pts)
        corr = darsia.TransformationCorrection(cs_s, cs_d, T)
        out = corr.correct_array(a.copy())
        S.claim("identity_between_systems_resamples_by_voxel_centres", S.and_(tuple(out.shape) == dst, S.eq(out, exp) if tuple(out.shape) == dst else False))
    else:
        ct = darsia.CoordinateTransformation(cs_s, cs_d, pts, pts)
        res = ct(img)
        S.claim("coordinate_transformation_data", S.and_(tuple(res.img.shape) == dst, S.eq(res.img, exp) if tuple(res.img.shape) == dst else False))
        S.claim("coordinate_transformation_labels_destination_system", S.and_(S.eq(list(res.dimensions), list(dimg.dimensions)), S.eq(list(res.origin), list(dimg.origin)), S.eq(res.voxel_size, dimg.voxel_size), type(res) is type(img)))
        S.claim("coordinate_transformation_leaves_input", S.eq(img.img, a))
        S.observe("res", res.img)
