"""C14 -- signal-to-data models obey their defining algebra.

Real code executed symbolically: ClipModel, ScalingModel, LinearModel,
HeterogeneousLinearModel, CombinedModel, StaticThresholdModel, KernelInterpolation,
LinearKernel, GaussianKernel (incl. the Python body of the numba-decorated
_linear_combination_numba), PolynomialApproximationSpace.
Symbolic: signals (1-D pixel lists, 2-D, 3-D), parameters and flat parameter vectors,
thresholds, interpolation values, the evaluation point of the basis functions.
"""
import itertools

import numpy as np

from symx import api as S

PROPERTY = "C14"
OPTIONS = dict(validate=14, query_timeout_ms=60000, obs_rtol=1e-4)
STUBS = ["np.linalg.inv(X) = a matrix Y with X Y = Y X = I", "np.exp = uninterpreted function (also on constants)", "numba.jit = identity (the Python body runs)", "astype(float32) = identity (float32 rounding outside)"]
OUTSIDE = ["float32 rounding", "routing of a SUBSET of degrees of freedom in CombinedModel (no documented layout)", "conditioning of the kernel matrix"]
ASSUMPTIONS = ["kernel supports are distinct, seeded rational points; label maps are concrete"]


def bounds(tier):
    return "label maps with 1..%d labels on <= 3x3; kernel supports 1..%d; polynomial degree 0..4; signals of rank 1..3; every documented dof subset of Clip / Scaling / Linear / HeterogeneousLinear models" % ((3, 3) if tier == "quick" else (5, 4))


LABELS = {
    1: [[0, 0], [0, 0]],
    2: [[0, 1, 1], [0, 0, 1]],
    3: [[2, 0, 1], [1, 2, 0], [0, 0, 2]],
    4: [[0, 1], [2, 3]],
    5: [[0, 1, 2], [3, 4, 0], [1, 1, 4]],
}


def configs(tier):
    out = []
    q = tier == "quick"
    for rank in (1, 2, 3):
        out.append(dict(kind="clip", rank=rank))
        out.append(dict(kind="linear", rank=rank))
    out.append(dict(kind="clip_image"))
    for dofs in (None, "all", ["scaling", "offset"], ["scaling"], ["offset"], ["offset", "scaling"]):
        out.append(dict(kind="linear_dofs", dofs=dofs))
    for dofs in (None, "all", ["min_value", "max_value"], ["min_value"], ["max_value"]):
        out.append(dict(kind="clip_dofs", dofs=dofs))
    for dofs in (None, "all", ["scaling"]):
        out.append(dict(kind="scaling_dofs", dofs=dofs))
    for pair in (("linear", "clip"), ("clip", "linear"), ("scaling", "linear"), ("linear", "linear"), ("linear", "clip", "scaling")):
        out.append(dict(kind="combined", models=list(pair)))
    for nl in ((1, 2, 3) if q else (1, 2, 3, 4, 5)):
        for dofs in (None, "all", ["scaling"], ["offset"]):
            if dofs is not None and nl not in (2, 3):
                continue
            out.append(dict(kind="hetero", labels=nl, dofs=dofs))
        out.append(dict(kind="threshold", labels=nl, upper=True))
        out.append(dict(kind="threshold", labels=nl, upper=False))
    for first in (([2, 2], [2, 4], [8, 8]) if q else ([2, 2], [2, 4], [8, 8], [1, 1], [3, 5], [4, 2], [16, 16])):
        out.append(dict(kind="hetero_history", first=first))
    out.append(dict(kind="threshold", labels=0, upper=True))
    out.append(dict(kind="threshold", labels=0, upper=False))
    for kern in ("gaussian", "linear"):
        for ns in ((1, 2, 3) if q else (1, 2, 3, 4)):
            out.append(dict(kind="kernel_interp", kernel=kern, supports=ns))
            for rank in (1, 2, 3):
                out.append(dict(kind="kernel_accel", kernel=kern, supports=ns, rank=rank))
    for d in range(5):
        out.append(dict(kind="poly", degree=d))
    return out


def install_stubs():
    import z3

    import darsia.utils.kernels as kn
    from symx import npx
    from symx.core import ENGINE, SymReal, rterm

    EXP = z3.Function("exp", z3.RealSort(), z3.RealSort())

    def exp1(e):
        return SymReal(EXP(z3.simplify(rterm(e), som=True)))

    class NPX(type(npx.NP)):
        def exp(self, x, *a, **k):
            if ENGINE.active and npx.really_sym(x) and not ENGINE.const_mode:
                return np.frompyfunc(lambda e: exp1(e) if isinstance(e, npx.Sym) else float(np.exp(e)), 1, 1)(x)
            if ENGINE.active and npx.has_sym(x):
                return np.frompyfunc(lambda e: float(np.exp(float(e))), 1, 1)(x)
            return np.exp(x, *a, **k)

        def float32(self, x=0.0):
            if ENGINE.active:
                return x
            return np.float32(x)

    kn.np = NPX()

    def inv_hook(A):
        A = np.asarray(A, dtype=object)
        n = A.shape[0]
        if S.symbolic():
            Y = S.fresh("inv", n * n).reshape(n, n)
            P, Q = A.dot(Y), Y.dot(A)
            for i in range(n):
                for j in range(n):
                    S.add_constraint(S.eq(P[i, j], 1 if i == j else 0))
                    S.add_constraint(S.eq(Q[i, j], 1 if i == j else 0))
            return Y
        Af = np.array([[S.tofloat(v) for v in row] for row in A], dtype=float)
        Yf = np.linalg.inv(Af)
        return np.array([[S.const(float(v)) for v in row] for row in Yf], dtype=object)

    ENGINE.inv_hook = inv_hook


def _dt():
    return object if S.instrumented() else float


def _signal(name, rank, ch=None, lo=-10, hi=10):
    shape = {1: (3,), 2: (2, 3), 3: (2, 2, 3)}[rank] if ch is None else {1: (ch,), 2: (2, ch), 3: (2, 2, ch)}[rank]
    return S.array(name, shape, lo=lo, hi=hi)


def _gen_eval(exp_terms):
    return exp_terms


def warmup_cfg(cfg):
    """the used-process warm-up of a polynomial space builds a space of ANOTHER degree first"""
    if cfg.get("kind") == "poly":
        return dict(cfg, degree=1 if cfg["degree"] != 1 else 2)
    return cfg


def body(cfg):
    import darsia

    k = cfg["kind"]
    if k == "clip":
        x = _signal("x", cfg["rank"])
        x0 = x.copy()
        lo = S.real("lo", lo=-5, hi=5)
        width = S.real("width", lo=0, hi=5)
        hi = lo + width
        m = darsia.ClipModel(**{"min value": lo, "max value": hi})
        y = m(x)
        S.claim("clip_confines_to_bounds", S.and_(S.le(lo, y), S.le(y, hi)))
        S.claim("clip_is_idempotent", S.eq(m(y), y))
        S.claim("clip_keeps_values_inside_the_bounds", S.and_([S.implies(S.and_(S.le(lo, a), S.le(a, hi)), S.eq(b, a)) for a, b in zip(x.ravel(), y.ravel())]))
        m0 = darsia.ClipModel()
        S.claim("default_clip_is_lower_bound_zero_only", S.eq(m0(x), np.array([S.max_(a, 0) for a in x.ravel()], dtype=_dt()).reshape(x.shape)))
        S.claim("input_untouched", S.eq(x, x0))
        return
    if k == "clip_image":
        x = S.array("x", (2, 3), lo=-10, hi=10)
        img = darsia.Image(x.copy(), dimensions=[1.0, 2.0], scalar=True)
        m = darsia.ClipModel(**{"min value": -1.0, "max value": 2.0})
        out = m(img)
        S.claim("clip_of_image_returns_new_image_with_clipped_pixels", S.and_(isinstance(out, darsia.Image), out is not img, S.eq(out.img, np.clip(x, -1.0, 2.0) if not S.instrumented() else __import__("symx.npx", fromlist=["NP"]).NP.clip(x, -1.0, 2.0)), S.eq(img.img, x)))
        return
    if k == "linear":
        x, y = _signal("x", cfg["rank"]), _signal("y", cfg["rank"])
        al = S.real("alpha", lo=-3, hi=3)
        s, o = S.real("s", lo=-5, hi=5), S.real("o", lo=-5, hi=5)
        lm = darsia.LinearModel(scaling=s, offset=o)
        S.claim("linear_model_is_affine_in_the_signal", S.eq(lm(al * x + (1 - al) * y), al * lm(x) + (1 - al) * lm(y)))
        S.claim("linear_model_is_scaling_times_signal_plus_offset", S.eq(lm(x), s * x + o))
        sm = darsia.ScalingModel(scaling=s)
        S.claim("scaling_model_is_affine_in_the_signal", S.eq(sm(al * x + (1 - al) * y), al * sm(x) + (1 - al) * sm(y)))
        S.claim("scaling_model_maps_zero_to_zero", S.eq(sm(np.zeros(x.shape, dtype=_dt())), np.zeros(x.shape)))
        return
    if k in ("linear_dofs", "clip_dofs", "scaling_dofs"):
        p = S.array("p", 2, lo=-5, hi=5)
        x = _signal("x", 1)
        dofs = cfg["dofs"]
        if k == "linear_dofs":
            m = darsia.LinearModel(scaling=2.0, offset=0.5)
            m.update_model_parameters(p, dofs) if dofs is not None else m.update_model_parameters(p)
            if dofs in (None, "all") or set(dofs) == {"scaling", "offset"}:
                exp = p[0] * x + p[1]
            elif dofs == ["scaling"]:
                exp = p[0] * x + 0.5
            else:
                exp = 2.0 * x + p[0]
            S.claim("linear_parameter_update_routes_scaling_then_offset", S.eq(m(x), exp))
        elif k == "clip_dofs":
            m = darsia.ClipModel(**{"min value": -1.0, "max value": 1.0})
            S.assume(S.le(p[0], p[1]))
            m.update_model_parameters(p, dofs) if dofs is not None else m.update_model_parameters(p)
            if dofs in (None, "all") or set(dofs) == {"min_value", "max_value"}:
                lo, hi = p[0], p[1]
            elif dofs == ["min_value"]:
                S.assume(S.le(p[0], 1))
                lo, hi = p[0], 1.0
            else:
                S.assume(S.le(-1, p[0]))
                lo, hi = -1.0, p[0]
            exp = np.array([S.min_(S.max_(a, lo), hi) for a in x], dtype=_dt())
            S.claim("clip_parameter_update_routes_min_then_max", S.eq(m(x), exp))
        else:
            m = darsia.ScalingModel(scaling=2.0)
            S.assume(S.or_(S.le(p[0], S.const("9/10")), S.le(S.const("11/10"), p[0])))  # ScalingModel returns the input itself when isclose(scaling, 1)
            m.update_model_parameters(p, dofs) if dofs is not None else m.update_model_parameters(p)
            S.claim("scaling_parameter_update", S.eq(m(x), p[0] * x))
        return
    if k == "combined":
        x = _signal("x", 2)
        x0 = x.copy()
        mk = {
            "linear": lambda i: darsia.LinearModel(scaling=S.real(f"s{i}", lo=-3, hi=3), offset=S.real(f"o{i}", lo=-3, hi=3)),
            "clip": lambda i: darsia.ClipModel(**{"min value": S.real(f"lo{i}", lo=-3, hi=0), "max value": S.real(f"hi{i}", lo=0, hi=3)}),
            "scaling": lambda i: darsia.ScalingModel(scaling=S.real(f"sc{i}", lo=-3, hi="9/10")),
        }
        parts = [mk[n](i) for i, n in enumerate(cfg["models"])]
        cm = darsia.CombinedModel(parts)
        seq = x
        for m in parts:
            seq = m(seq)
        S.claim("combined_model_is_sequential_composition", S.eq(cm(x), seq))
        S.claim("combined_input_untouched", S.eq(x, x0))
        nps = [m.num_parameters for m in parts]
        S.claim("combined_number_of_parameters", cm.num_parameters == sum(nps))
        p = S.array("p", sum(nps), lo=-3, hi=3)
        # clip parameters must be ordered for the oracle
        off = 0
        fresh_parts = []
        for n_, np_ in zip(cfg["models"], nps):
            q = p[off : off + np_]
            if n_ == "clip":
                S.assume(S.le(q[0], q[1]))
            if n_ == "scaling":
                S.assume(S.or_(S.le(q[0], S.const("9/10")), S.le(S.const("11/10"), q[0])))
            fresh_parts.append((n_, q))
            off += np_
        cm.update_model_parameters(p)
        exp = x
        for n_, q in fresh_parts:
            if n_ == "linear":
                exp = q[0] * exp + q[1]
            elif n_ == "scaling":
                exp = q[0] * exp
            else:
                exp = np.array([S.min_(S.max_(a, q[0]), q[1]) for a in exp.ravel()], dtype=_dt()).reshape(exp.shape)
        S.claim("flat_parameter_vector_is_distributed_in_order", S.eq(cm(x), exp))
        return
    if k == "hetero":
        lab = np.array(LABELS[cfg["labels"]])
        nl = cfg["labels"]
        s = S.array("s", nl, lo=-3, hi=3)
        o = S.array("o", nl, lo=-3, hi=3)
        x = S.array("x", lab.shape, lo=-10, hi=10)
        m = darsia.HeterogeneousLinearModel(lab, scaling=s.copy(), offset=o.copy())
        dofs = cfg["dofs"]
        if dofs is not None:
            p = S.array("p", 2 * nl if dofs == "all" else nl, lo=-3, hi=3)
            m.update_model_parameters(p, dofs)
            if dofs == "all":
                s, o = p[:nl], p[nl:]
            elif dofs == ["scaling"]:
                s = p
            else:
                o = p
        y = m(x)
        ok = []
        for idx in np.ndindex(*lab.shape):
            l_ = int(lab[idx])
            hom = darsia.LinearModel(scaling=s[l_], offset=o[l_])
            ok.append(S.eq(y[idx], hom(x)[idx]))
        S.claim("heterogeneous_model_agrees_with_homogeneous_model_on_each_label", S.and_(tuple(y.shape) == lab.shape, S.and_(ok)))
        S.claim("second_call_same_result", S.eq(m(x), y))
        # inside a combined model, fed from a parameter buffer the caller keeps using afterwards
        if dofs == "all":
            lin = darsia.LinearModel(scaling=2.0, offset=0.5)
            h2 = darsia.HeterogeneousLinearModel(lab, scaling=s.copy(), offset=o.copy())
            cm = darsia.CombinedModel([lin, h2])
            buf = S.array("buf", 2 + 2 * nl, lo=-3, hi=3)
            mine = buf.copy()
            cm.update_model_parameters(mine)
            y1 = cm(x)
            mine[...] = 0  # the caller recycles its buffer
            S.claim("combined_model_keeps_its_parameters_when_the_caller_reuses_its_buffer", S.eq(cm(x), y1))
            exp = buf[0] * x + buf[1]
            ok = []
            for idx in np.ndindex(*lab.shape):
                l_ = int(lab[idx])
                ok.append(S.eq(y1[idx], buf[2 + l_] * exp[idx] + buf[2 + nl + l_]))
            S.claim("combined_model_routes_the_vector_into_a_labelwise_part", S.and_(ok))
        return
    if k == "hetero_history":
        # a call at another resolution (labels resized internally) must not influence a later call
        lab = np.array([[0, 1, 0, 2], [0, 1, 1, 2], [3, 1, 0, 2], [3, 3, 0, 0]])
        nl = 4
        s = S.array("s", nl, lo=-3, hi=3)
        o = S.array("o", nl, lo=-3, hi=3)
        m = darsia.HeterogeneousLinearModel(lab, scaling=s.copy(), offset=o.copy())
        x1 = S.array("x1", tuple(cfg["first"]), lo=-10, hi=10)
        x2 = S.array("x2", lab.shape, lo=-10, hi=10)
        y1 = m(x1)
        y2 = m(x2)
        ok = []
        for idx in np.ndindex(*lab.shape):
            l_ = int(lab[idx])
            ok.append(S.eq(y2[idx], s[l_] * x2[idx] + o[l_]))
        S.claim("call_at_native_resolution_after_another_resolution_uses_the_original_labels", S.and_(ok))
        S.claim("other_resolution_result_shape", tuple(y1.shape) == tuple(cfg["first"]))
        return
    if k == "threshold":
        nl = cfg["labels"]
        if nl == 0:
            x = S.array("x", (2, 3), lo=-10, hi=10)
            lo = S.real("lo", lo=-5, hi=5)
            hi = S.real("hi", lo=-5, hi=5) if cfg["upper"] else None
            m = darsia.StaticThresholdModel(threshold_lower=lo, threshold_upper=hi)
            lows = np.empty(x.shape, dtype=_dt())
            lows[...] = lo
            his = None
            if hi is not None:
                his = np.empty(x.shape, dtype=_dt())
                his[...] = hi
        else:
            lab = np.array(LABELS[nl])
            x = S.array("x", lab.shape, lo=-10, hi=10)
            lo = S.array("lo", nl, lo=-5, hi=5)
            hi = S.array("hi", nl, lo=-5, hi=5) if cfg["upper"] else None
            m = darsia.StaticThresholdModel(threshold_lower=lo.copy(), threshold_upper=None if hi is None else hi.copy(), labels=lab)
            lows = lo[lab]
            his = None if hi is None else hi[lab]
        mask = np.zeros(x.shape, dtype=bool)
        mask[0, :] = True
        mask[-1, -1] = True
        res = m(x)
        resm = m(x, mask)
        ok, okm = [], []
        for idx in np.ndindex(*x.shape):
            inside = S.lt(lows[idx], x[idx]) if his is None else S.and_(S.lt(lows[idx], x[idx]), S.lt(x[idx], his[idx]))
            ok.append(S.iff(res[idx], inside))
            okm.append(S.iff(resm[idx], S.and_(inside, bool(mask[idx]))))
        S.claim("threshold_mask_is_strictly_between_the_bounds", S.and_(ok))
        S.claim("threshold_with_mask_is_intersection", S.and_(okm))
        return
    if k in ("kernel_interp", "kernel_accel"):
        S.set_rtol(1e-4)
        ns = cfg["supports"]
        rng = np.random.default_rng(11 + ns)
        pts = []
        while len(pts) < ns:
            c = tuple(float(v) / 8 for v in rng.integers(0, 9, size=3))
            if c not in pts:
                pts.append(c)
        supports = np.array(pts, dtype=float)
        vals = S.array("v", ns, lo=-5, hi=5)
        kern = darsia.GaussianKernel(gamma=0.5) if cfg["kernel"] == "gaussian" else darsia.LinearKernel(a=1.0)
        if k == "kernel_interp":
            ki = darsia.KernelInterpolation(kern, supports.copy(), vals.copy())
            order = np.lexsort(supports.T[::-1]) if False else None
            # supports are re-ordered (np.unique): compare per support point
            ok = []
            for i in range(ns):
                sig = np.array(supports[i], dtype=_dt())
                out = ki(sig)
                ok.append(S.eq(out, vals[i]))
            S.claim("interpolation_reproduces_the_prescribed_values_at_the_supports", S.and_(ok))
            batch = ki(np.array(supports, dtype=_dt()))
            S.claim("batch_of_support_points", S.and_(np.shape(batch) == (ns,), S.eq(batch, vals)))
            return
        sig = _signal("x", cfg["rank"], lo=0, hi=1)
        w = S.array("w", ns, lo=-5, hi=5)
        fast = kern.linear_combination(sig if S.instrumented() else sig.astype(np.float32), supports.astype(_dt()) if S.instrumented() else supports.astype(np.float32), w if S.instrumented() else w.astype(np.float32))
        slow = darsia.BaseKernel.linear_combination(kern, sig if S.instrumented() else sig.astype(np.float32), supports, w)
        plain_sum = 0
        for n_ in range(ns):
            plain_sum = plain_sum + w[n_] * kern(sig if S.instrumented() else sig.astype(np.float32), supports[n_])
        S.claim("accelerated_evaluation_agrees_with_plain_kernel_sum", S.and_(np.shape(fast) == np.shape(plain_sum), S.eq(fast, plain_sum), S.eq(slow, plain_sum)))
        return
    if k == "poly":
        d = cfg["degree"]
        sp = darsia.PolynomialApproximationSpace(d)
        want = sorted((i, j) for i in range(d + 1) for j in range(d + 1 - i))
        S.claim("dimension_of_total_degree_space", sp.size == len(want))
        xs, ys = S.real("x", lo=-3, hi=3), S.real("y", lo=-3, hi=3)
        pt = np.array([[xs, ys]], dtype=_dt())
        probe = np.array([[2.0, 3.0]])
        found = []
        ok = []
        for kk in range(sp.size):
            val = float(np.asarray(sp.basis(probe, kk)).ravel()[0])
            ij = [(i, j) for i in range(2 * d + 2) for j in range(2 * d + 2) if abs(2.0**i * 3.0**j - val) < 1e-9]
            if len(ij) != 1:
                found.append(None)
                continue
            i, j = ij[0]
            found.append((i, j))
            ok.append(S.eq(np.asarray(sp.basis(pt, kk)).ravel()[0], xs**i * ys**j if (i or j) else 1 + 0 * xs))
        S.claim("every_basis_function_is_a_monomial", S.and_(None not in found, S.and_(ok)))
        S.claim("basis_spans_exactly_total_degree_at_most_d", sorted(f for f in found if f is not None) == want)
        allv = sp(pt)
        S.claim("call_returns_all_basis_functions", len(allv) == sp.size)
        return
