"""C17 -- operations that return new objects do not modify their arguments.

Real code executed symbolically: Image.__add__/__sub__/__mul__/__rmul__/comparisons/astype/
copy/subregion/time_slice/time_interval/metadata/__init__, arithmetics.weight/stack/superpose,
uniform_refinement, reduce_axis, extrude_along_axis, Resize, zeros_like/ones_like, the models,
Geometry.integrate/normalize, bounding_box, random_patches.
Symbolic: all pixel data, metadata values, scalars; the global numpy RNG state is one symbolic
variable that np.random.seed(k) overwrites.  Every argument (data terms, metadata, caller-owned
containers) is compared with its snapshot after the call; chains of calls share operands.
"""
import copy
import itertools

import numpy as np

from symx import api as S

PROPERTY = "C17"
OPTIONS = dict(validate=14, query_timeout_ms=60000, obs_rtol=1e-6)
STUBS = ["cv2.resize / split / merge / warpPerspective contract stubs (as C11): assumed not to write into their inputs", "np.random.seed(k): overwrites the symbolic RNG-state variable"]
OUTSIDE = ["bodies in cv2/skimage (img_as, to_trichromatic, EMD): only DarSIA's own assignments to arguments are visible for those calls", "distance computation (C04 runs its inputs symbolically but does not snapshot them)"]
ASSUMPTIONS = []

OPS = [
    "add", "sub", "mul_float", "mul_int", "rmul_float", "lt_img", "gt_num", "eq_img", "le_num", "ge_img",
    "astype_float", "copy", "subregion", "time_slice", "time_interval", "metadata", "weight_float", "weight_int", "weight_image",
    "weight_image_resized", "weight_array", "stack", "stack_series", "append_like", "superpose", "refine", "coarsen", "reduce", "extrude", "resize", "zeros_like", "ones_like",
    "clip_model", "linear_model", "combined_model", "integrate", "normalize", "bounding_box", "random_patches", "init_lists", "init_height",
    "subregion_voxelarray", "subregion_coordinates", "optical_mono_red_of_bgr", "optical_mono_blue_of_rgb", "optical_trichromatic_returned", "optical_mono_uint8_hsv", "optical_mono_uint8_gray", "emd_distance", "optical_trichromatic_float64_concrete",
]


def bounds(tier):
    return "registry of %d call forms on 2x3 images (series of 2 where the call needs one); chains of %s calls on shared operands; pixel data, metadata and scalars symbolic" % (len(OPS), "2" if tier == "quick" else "2..3")


def configs(tier):
    out = [dict(kind="single", op=o) for o in OPS]
    chain_ops = ["add", "mul_float", "weight_float", "weight_image_resized", "stack", "refine", "reduce", "lt_img", "normalize", "subregion", "clip_model"]
    pairs = list(itertools.permutations(chain_ops, 2))
    if tier == "quick":
        pairs = pairs[::5]
    for p in pairs:
        out.append(dict(kind="chain", ops=list(p)))
    if tier != "quick":
        for t in list(itertools.permutations(chain_ops[:8], 3))[::3]:
            out.append(dict(kind="chain", ops=list(t)))
    return out


RNG = dict(state=None)


def install_stubs():
    import darsia.image.arithmetics as ar
    from symx.core import ENGINE, SymReal, const_real
    from . import c11

    c11.install_stubs()
    import darsia.restoration.resize as rz

    ar.cv2 = rz.cv2
    import darsia.image.image as im
    from symx import npx
    from symx.core import Unsupported

    real = im.cv2

    class _CV2:
        def __getattr__(self, n):
            return getattr(real, n)

        @staticmethod
        def cvtColor(src, code, *a, **k):
            if npx.has_sym(src):
                if code in (real.COLOR_BGR2RGB, real.COLOR_RGB2BGR):
                    return src[..., ::-1].copy()  # exact channel permutation
                raise Unsupported("cv2.cvtColor on symbolic data (non-permutation colour space)")
            return real.cvtColor(src, code, *a, **k)

    im.cv2 = _CV2()

    def seed_hook(k=None, *a, **kw):
        RNG["state"] = const_real(int(k) if k is not None else -1)

    ENGINE.seed_hook = seed_hook


def _dt():
    return object if S.instrumented() else float


class Tracker:
    """snapshots of every argument: pixel terms, metadata values, container identity and contents"""

    def __init__(self):
        self.items = []

    def image(self, name, img):
        meta = img.metadata()
        self.items.append(("image", name, img, dict(color_space=getattr(img, "color_space", None), dtype=img.img.dtype, arr=img.img, data=img.img.copy(), shape=tuple(img.img.shape), dims=list(img.dimensions), origin=list(img.origin), series=img.series, scalar=img.scalar, time=copy.copy(img.time), date=copy.copy(img.date), name=img.name, space_dim=img.space_dim, dims_obj=img.dimensions)))
        return img

    def array(self, name, arr):
        self.items.append(("array", name, arr, dict(data=arr.copy(), shape=tuple(arr.shape))))
        return arr

    def container(self, name, lst):
        self.items.append(("list", name, lst, dict(data=list(lst), n=len(lst))))
        return lst

    def claims(self, tag):
        for kind, name, obj, snap in self.items:
            if kind == "image":
                same_shape = tuple(obj.img.shape) == snap["shape"]
                S.claim(f"{tag}:{name}:pixels_unchanged", S.and_(same_shape, S.eq(obj.img, snap["data"]) if same_shape else False))
                S.claim(f"{tag}:{name}:metadata_unchanged", S.and_(S.eq(list(obj.dimensions), snap["dims"]), S.eq(list(obj.origin), snap["origin"]), obj.series == snap["series"], obj.scalar == snap["scalar"], _same(obj.time, snap["time"]), obj.date == snap["date"], obj.name == snap["name"], obj.space_dim == snap["space_dim"], getattr(obj, "color_space", None) == snap["color_space"], obj.img.dtype == snap["dtype"]))
            elif kind == "array":
                same_shape = tuple(obj.shape) == snap["shape"]
                S.claim(f"{tag}:{name}:array_unchanged", S.and_(same_shape, S.eq(np.asarray(obj), np.asarray(snap["data"])) if same_shape else False))
            else:
                S.claim(f"{tag}:{name}:container_unchanged", S.and_(len(obj) == snap["n"], S.and_([_same(a, b) for a, b in zip(obj, snap["data"])]) if len(obj) == snap["n"] else False))


def _same(a, b):
    if a is None or b is None:
        return a is None and b is None
    if isinstance(a, list) and isinstance(b, list):
        return S.and_(len(a) == len(b), S.and_([_same(x, y) for x, y in zip(a, b)]) if len(a) == len(b) else False)
    if hasattr(a, "img") or hasattr(b, "img"):
        return a is b
    return S.eq(a, b)


class Ctx:
    def __init__(self, darsia):
        self.da = darsia
        self.t = Tracker()
        self.n = 0
        dims = [S.real("d0", lo="1/10", hi=10), S.real("d1", lo="1/10", hi=10)]
        self.dims = dims
        self.A = self.t.image("A", self.img("a"))
        self.B = self.t.image("B", self.img("b"))
        self.Ser = None

    def img(self, name, shape=(2, 3), series=0, lo=-10, hi=10, dims=None):
        full = tuple(shape) + ((series,) if series else ())
        a = S.array(name, full, lo=lo, hi=hi)
        kw = dict(dimensions=list(dims if dims is not None else self.dims), scalar=True, series=bool(series), name=name)
        if series:
            kw["time"] = [float(i) for i in range(series)]
        return self.da.Image(a.copy(), **kw)

    def series(self):
        if self.Ser is None:
            self.Ser = self.t.image("Ser", self.img("ser", series=2))
        return self.Ser


def run_op(c, op):
    """performs one registry call on the shared operands; returns (result, expected or None)"""
    da = c.da
    A, B = c.A, c.B
    a, b = A.img, B.img
    k = c.n
    c.n += 1
    if op == "add":
        return A + B, a + b
    if op == "sub":
        return A - B, a - b
    if op == "mul_float":
        s = S.real(f"sc{k}", lo=-3, hi=3)
        return A * s, a * s
    if op == "mul_int":
        return A * 3, a * 3
    if op == "rmul_float":
        s = S.real(f"sc{k}", lo=-3, hi=3)
        return s * A, s * a
    cmp = {"lt_img": (lambda: A < B, lambda: _cmp(a, b, "lt")), "gt_num": (lambda: A > 0.5, lambda: _cmp(a, 0.5, "gt")), "eq_img": (lambda: A == B, lambda: _cmp(a, b, "eq")), "le_num": (lambda: A <= 1, lambda: _cmp(a, 1, "le")), "ge_img": (lambda: A >= B, lambda: _cmp(a, b, "ge"))}
    if op in cmp:
        return cmp[op][0](), cmp[op][1]()
    if op == "astype_float":
        return A.astype(float), a
    if op == "copy":
        return A.copy(), a
    if op == "subregion":
        return A.subregion((slice(0, 1), slice(1, 3))), a[0:1, 1:3]
    if op == "time_slice":
        s = c.series()
        return s.time_slice(1), s.img[..., 1]
    if op == "time_interval":
        s = c.series()
        return s.time_interval(slice(0, 1)), s.img[..., 0:1]
    if op == "metadata":
        m = A.metadata()
        m["name"] = "changed"
        return A, a
    if op in ("weight_float", "weight_int"):
        s = S.real(f"w{k}", lo=-3, hi=3) if op == "weight_float" else 2
        return da.weight(A, s), a * s
    if op == "weight_image":
        return da.weight(A, B), a * b
    if op == "weight_image_resized":
        W = c.t.image(f"W{k}", c.img(f"w{k}", shape=(1, 3)))
        return da.weight(A, W), None
    if op == "weight_array":
        s = c.series()
        w = c.t.array(f"wa{k}", S.array(f"wa{k}", 2, lo=-3, hi=3))
        return da.weight(s, w), s.img * w
    if op == "stack":
        lst = c.t.container(f"stacklist{k}", [A, B])
        return da.stack(lst), np.stack([a, b], axis=2)
    if op == "stack_series":
        s = c.series()
        lst = c.t.container(f"stacklist{k}", [s, A])
        return da.stack(lst), np.concatenate([s.img, a[..., np.newaxis]], axis=2)
    if op == "append_like":
        # the documented way to extend a series without touching the operands: copy, then append
        s = c.series()
        out = s.copy()
        out.append(B, offset=1.0)
        return out, np.concatenate([s.img, b[..., np.newaxis]], axis=2)
    if op == "superpose":
        # concrete geometry (the perspective matrices are computed by real OpenCV), symbolic pixels
        U = c.t.image(f"U{k}", c.img(f"u{k}", dims=[1.0, 3.0]))
        V = c.t.image(f"V{k}", c.img(f"v{k}", dims=[1.0, 3.0]))
        lst = c.t.container(f"suplist{k}", [U, V])
        return da.superpose(lst), U.img + V.img
    if op == "refine":
        return da.uniform_refinement(A, 1), np.repeat(np.repeat(a, 2, axis=0), 2, axis=1)
    if op == "coarsen":
        E = c.t.image(f"E{k}", c.img(f"e{k}", shape=(2, 4)))
        return da.uniform_refinement(E, -1), None
    if op == "reduce":
        return da.reduce_axis(A, 0, mode="sum"), np.sum(a, axis=0)
    if op == "extrude":
        return da.extrude_along_axis(A, 2.0, 2), np.stack([a, a], axis=0)
    if op == "resize":
        return da.resize(A, shape=(1, 3), interpolation="inter_area"), None
    if op == "zeros_like":
        return da.zeros_like(A), np.zeros((2, 3))
    if op == "ones_like":
        return da.ones_like(A, mode="voxels"), np.ones((2, 3))
    if op == "clip_model":
        m = da.ClipModel(**{"min value": -1.0, "max value": 1.0})
        return m(A), None
    if op == "linear_model":
        m = da.LinearModel(scaling=2.0, offset=1.0)
        arr = c.t.array(f"sig{k}", a.copy())
        return m(arr), 2.0 * a + 1.0
    if op == "combined_model":
        m = da.CombinedModel([da.LinearModel(scaling=2.0, offset=1.0), da.ClipModel(**{"min value": -1.0, "max value": 1.0})])
        arr = c.t.array(f"sig{k}", a.copy())
        return m(arr), None
    if op == "integrate":
        g = da.Geometry(**A.shape_metadata())
        return g.integrate(A), None
    if op == "normalize":
        P = c.t.image(f"P{k}", c.img(f"p{k}", lo="1/10", hi=10))
        Q = c.t.image(f"Q{k}", c.img(f"q{k}", lo="1/10", hi=10))
        g = da.Geometry(**P.shape_metadata())
        return g.normalize(P, Q), None
    if op == "bounding_box":
        v = da.make_voxel(np.array([[0, 1], [1, 2], [1, 0]]))
        c.t.array(f"vox{k}", np.asarray(v))
        return da.bounding_box(v, padding=1, max_size=[2, 3]), None
    if op == "random_patches":
        mask = c.t.array(f"mask{k}", np.ones((4, 4), dtype=bool))
        return da.random_patches(mask, 1, 2), None
    if op == "subregion_voxelarray":
        # region of interest partly outside the image: the caller's VoxelArray stays as it was
        v = c.t.array(f"roi{k}", da.make_voxel(np.array([[-2, 1], [1, 5]])))
        return A.subregion(v), a[0:1, 1:3]
    if op == "subregion_coordinates":
        E = c.t.image(f"E{k}", c.img(f"e{k}", dims=[1.0, 3.0]))  # voxel size 0.5 x 1.0, origin (0, 1)
        co = c.t.array(f"roi{k}", da.make_coordinate(np.array([[-1.0, 0.75], [2.5, -5.0]])))
        return E.subregion(co), E.img[0:2, 0:2]
    if op == "emd_distance":
        return run_emd(c, k), None
    if op == "optical_trichromatic_float64_concrete":
        raw = (np.arange(18, dtype=np.float64).reshape(2, 3, 3) + 1) / 20.0
        O_ = c.t.image(f"O{k}", da.OpticalImage(raw.copy(), dimensions=list(c.dims), color_space="RGB", name="opt"))
        return O_.to_trichromatic("BGR", return_image=True), None
    if op.startswith("optical_"):
        return run_optical(c, op, k)
    if op == "init_lists":
        dl = c.t.container(f"dimlist{k}", [S.real(f"dl{k}_0", lo=1, hi=2), S.real(f"dl{k}_1", lo=1, hi=2)])
        ol = c.t.container(f"orglist{k}", [S.real(f"ol{k}_0", lo=1, hi=2), S.real(f"ol{k}_1", lo=1, hi=2)])
        arr = c.t.array(f"raw{k}", S.array(f"raw{k}", (2, 3), lo=-1, hi=1))
        im = da.Image(arr, dimensions=dl, origin=ol, scalar=True)
        im2 = im.subregion((slice(0, 1), slice(0, 2)))
        im2.dimensions[0] = 7.0
        return im, None
    if op == "init_height":
        dl = c.t.container(f"dimlist{k}", [S.real(f"dl{k}_0", lo=1, hi=2), S.real(f"dl{k}_1", lo=1, hi=2)])
        arr = c.t.array(f"raw{k}", S.array(f"raw{k}", (2, 3), lo=-1, hi=1))
        hgt = S.real(f"hg{k}", lo=3, hi=4)
        im = da.Image(arr, dimensions=dl, height=hgt, scalar=True)
        S.claim(f"{op}:height_keyword_sets_first_dimension", S.eq(im.dimensions[0], hgt))
        return im, None
    raise ValueError(op)


def run_emd(c, k):
    """distance computation through the OpenCV back-end (cv2.EMD itself = an unconstrained value)"""
    import darsia.measure.emd as emd

    da = c.da
    p = S.array(f"ep{k}", (2, 2), lo="1/10", hi=10)
    q0 = S.array(f"eq{k}", 3, lo="1/10", hi=10)
    tot_p = p[0, 0] + p[0, 1] + p[1, 0] + p[1, 1]
    last = tot_p - (q0[0] + q0[1] + q0[2])
    S.assume(S.le(S.const("1/10"), last))
    q = np.array([[q0[0], q0[1]], [q0[2], last]], dtype=_dt())
    P = c.t.image(f"EP{k}", da.Image(p.copy(), dimensions=list(c.dims), scalar=True, name="p"))
    Q = c.t.image(f"EQ{k}", da.Image(q.copy(), dimensions=list(c.dims), scalar=True, name="q"))
    real_cv2 = emd.cv2
    if S.instrumented():
        class CV2:
            DIST_L2 = real_cv2.DIST_L2

            def __getattr__(self, nm):
                return getattr(real_cv2, nm)

            @staticmethod
            def EMD(s1, s2, dist):
                if S.symbolic():
                    return S.fresh("emd"), None, None
                f1 = np.array([[S.tofloat(v) for v in row] for row in s1], dtype=np.float32)
                f2 = np.array([[S.tofloat(v) for v in row] for row in s2], dtype=np.float32)
                return S.const(float(real_cv2.EMD(f1, f2, dist)[0])), None, None

        emd.cv2 = CV2()
    try:
        return da.EMD()(P, Q)
    finally:
        emd.cv2 = real_cv2


def run_optical(c, op, k):
    da = c.da
    if "uint8" in op:
        raw = np.array([[[10, 200, 30], [0, 255, 128], [77, 5, 90]], [[250, 250, 1], [3, 60, 200], [128, 128, 128]]], dtype=np.uint8)
        O = c.t.image(f"O{k}", da.OpticalImage(raw.copy(), dimensions=list(c.dims), color_space="HSV" if op.endswith("hsv") else "BGR", name="opt"))
        return (O.to_monochromatic("green" if op.endswith("hsv") else "gray"), None)
    a = S.array(f"o{k}", (2, 3, 3), lo=0, hi=1)
    space = "BGR" if op.endswith("bgr") or op.endswith("returned") else "RGB"
    O = c.t.image(f"O{k}", da.OpticalImage(a.copy(), dimensions=list(c.dims), color_space=space, name="opt"))
    # what the conversions compute is not part of C17 (only that their argument survives): no expected value
    if op == "optical_mono_red_of_bgr":
        return O.to_monochromatic("red"), None
    if op == "optical_mono_blue_of_rgb":
        return O.to_monochromatic("blue"), a[..., 2]
    if op == "optical_trichromatic_returned":
        R = O.to_trichromatic("RGB", return_image=True)
        S.claim(f"{op}:returned_image_is_a_new_object", R is not O)
        return R, None
    raise ValueError(op)


def _cmp(x, y, op):
    import operator

    f = getattr(operator, op)
    if S.instrumented():
        return np.frompyfunc(f, 2, 1)(x, y)
    return f(x, y)


def body(cfg):
    import darsia
    from symx.core import const_real

    RNG["state"] = const_real(0) if S.instrumented() else None
    state0 = np.random.get_state()[1].copy() if not S.instrumented() else None
    c = Ctx(darsia)
    ops = [cfg["op"]] if cfg["kind"] == "single" else cfg["ops"]
    for i, op in enumerate(ops):
        res, exp = run_op(c, op)
        tag = f"{i}_{op}" if len(ops) > 1 else op
        if exp is not None:
            got = res.img if hasattr(res, "img") else res
            same = tuple(np.shape(got)) == tuple(np.shape(exp))
            S.claim(f"{tag}:result_agrees_with_raw_array_operation", S.and_(same, _cmp_eq(got, exp) if same else False))
        if hasattr(res, "img") and op not in ("metadata",):
            S.claim(f"{tag}:returns_a_new_object", res is not c.A and res is not c.B and res.img is not c.A.img and res.img is not c.B.img)
        c.t.claims(tag)
        if S.instrumented():
            S.claim(f"{tag}:global_random_state_unchanged", S.eq(RNG["state"], 0))
        else:
            S.claim(f"{tag}:global_random_state_unchanged", bool(np.array_equal(np.random.get_state()[1], state0)))


def _cmp_eq(got, exp):
    if S.instrumented():
        g = np.asarray(got, dtype=object)
        e = np.asarray(exp, dtype=object)
        return S.and_([S.iff(x, y) if _isb(x) or _isb(y) else S.eq(x, y) for x, y in zip(g.ravel(), e.ravel())])
    return bool(np.allclose(np.asarray(got, dtype=float), np.asarray(exp, dtype=float), rtol=1e-9, atol=1e-9))


def _isb(x):
    from symx.core import SymBool

    return isinstance(x, (bool, np.bool_, SymBool))
