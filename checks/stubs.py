"""Contract stubs for compiled third-party code, shared by the harnesses.

Every stub is the identity (delegates to the real library) on purely numeric input, so the
plain replay and the numeric parts of an instrumented run use the real back-end.
"""
from fractions import Fraction

import numpy as np

from symx import npx
from symx.core import Unsupported, const_real


def _resample_axis_area(a, axis, n_out):
    """exact area resampling of a piecewise-constant signal along one axis:
    block mean (any shrink ratio) / replication (integer zoom) -- what cv2.INTER_AREA computes"""
    n_in = a.shape[axis]
    if n_out == n_in:
        return a
    a = np.moveaxis(a, axis, 0)
    out = np.empty((n_out,) + a.shape[1:], dtype=object)
    if n_out > n_in:
        if n_out % n_in:
            raise Unsupported("cv2.INTER_AREA zoom by a non-integer factor (linear interpolation in OpenCV)")
        f = n_out // n_in
        for i in range(n_out):
            out[i] = a[i // f]
    else:
        s = Fraction(n_in, n_out)
        for i in range(n_out):
            lo, hi = i * s, (i + 1) * s
            acc = 0
            for j in range(int(lo), min(n_in, int(hi) + (0 if hi == int(hi) else 1))):
                w = min(hi, j + 1) - max(lo, j)
                if w > 0:
                    acc = acc + a[j] * const_real(w / s)
            out[i] = acc
    return np.moveaxis(out, 0, axis)


def resize_area(a, dsize):
    """cv2.resize(a, dsize, interpolation=INTER_AREA) for 2-D (+channels) symbolic arrays.  dsize = (cols, rows)"""
    cols, rows = int(dsize[0]), int(dsize[1])
    up = (rows > a.shape[0], cols > a.shape[1])
    down = (rows < a.shape[0], cols < a.shape[1])
    if any(up) and any(down):
        raise Unsupported("cv2.INTER_AREA mixing zoom and shrink")
    r = _resample_axis_area(np.asarray(a, dtype=object), 0, rows)
    return _resample_axis_area(r, 1, cols)


def _resample_axis_linear(a, axis, n_out):
    """cv2.INTER_LINEAR along one axis: half-pixel centres, border replicated (exact rational weights)"""
    n_in = a.shape[axis]
    if n_out == n_in:
        return a
    a = np.moveaxis(a, axis, 0)
    out = np.empty((n_out,) + a.shape[1:], dtype=object)
    scale = Fraction(n_in, n_out)
    for i in range(n_out):
        x = (Fraction(2 * i + 1, 2)) * scale - Fraction(1, 2)
        x0 = x.numerator // x.denominator
        t = x - x0
        lo = min(max(x0, 0), n_in - 1)
        hi = min(max(x0 + 1, 0), n_in - 1)
        if x0 < 0:
            t = Fraction(0)
            lo = hi = 0
        out[i] = a[lo] * const_real(1 - t) + a[hi] * const_real(t)
    return np.moveaxis(out, 0, axis)


def resize_linear(a, dsize):
    cols, rows = int(dsize[0]), int(dsize[1])
    r = _resample_axis_linear(np.asarray(a, dtype=object), 0, rows)
    return _resample_axis_linear(r, 1, cols)


def make_cv2(real):
    """cv2 proxy: resize on symbolic arrays follows the INTER_AREA contract; everything else is the real cv2"""

    class CV2:
        def __getattr__(self, n):
            return getattr(real, n)

        @staticmethod
        def resize(src, dsize, dst=None, fx=None, fy=None, interpolation=None):
            if not npx.has_sym(src):
                kw = {}
                if interpolation is not None:
                    kw["interpolation"] = interpolation
                if dsize is None:
                    return real.resize(src, None, fx=fx, fy=fy, **kw)
                return real.resize(src, tuple(int(x) for x in dsize), **kw)
            if dsize is None:
                dsize = (int(round(src.shape[1] * fx)), int(round(src.shape[0] * fy)))
            dsize = tuple(int(x) for x in dsize)
            if (dsize[1], dsize[0]) == tuple(src.shape[:2]):
                return src.copy()
            if interpolation == real.INTER_AREA:
                return resize_area(src, dsize)
            if interpolation in (None, real.INTER_LINEAR):
                return resize_linear(src, dsize)
            raise Unsupported(f"cv2.resize with interpolation {interpolation} on symbolic data")

    return CV2()


# ---------------------------------------------------------------- linear-solver back-ends


def install_linear_solver_stubs(ws_module, linalg_module, log=None):
    """splu / pyamg / scipy cg on symbolic matrices = EXACT solve of the matrix they were given
    (contract).  `log` (a list) records (backend, event) for reuse claims.

      * splu(A): sorts A's index arrays in place like SuperLU's wrapper does, factorises a COPY
        of the values at set-up time; .solve(b) solves with those values.
      * pyamg.smoothed_aggregation_solver(A): copies A at set-up; .solve(b, ...) exact.
      * scipy.sparse.linalg.cg(A, b, ...): solves with A's CURRENT values (darsia's CG wrapper
        keeps a reference to the matrix, not a copy).
    """
    from symx import api as S
    from symx import sparse
    from symx.core import ENGINE

    log = log if log is not None else []

    class LU:
        def __init__(self, A):
            A.sort_indices()
            self.M = A.copy()
            log.append(("direct", "setup"))

        def solve(self, b, trans="N", **k):
            log.append(("direct", "solve"))
            # SuperLU.solve(rhs, trans): 'N' solves A x = b, 'T' / 'H' the (conjugate) transposed system
            return S.solve_contract(self.M if trans == "N" else self.M.T, b, "lu")

    ENGINE.splu_hook = LU

    real_pyamg = ws_module.pyamg

    class AMG:
        def __init__(self, A, **k):
            self.M = A.copy()
            log.append(("amg", "setup"))

        def solve(self, b, tol=None, maxiter=None, residuals=None, **k):
            log.append(("amg", "solve"))
            if residuals is not None:
                residuals.append(0.0)
            return S.solve_contract(self.M, b, "amg")

        def aspreconditioner(self, cycle="V"):
            return ("amg-preconditioner", self)

    class PyAMG:
        def __getattr__(self, n):
            return getattr(real_pyamg, n)

        @staticmethod
        def smoothed_aggregation_solver(A, **k):
            if isinstance(A, sparse.SpM):
                return AMG(A, **k)
            return real_pyamg.smoothed_aggregation_solver(A, **k)

    ws_module.pyamg = PyAMG()

    real_cg = linalg_module.cg

    def cg(A, b, **k):
        if isinstance(A, sparse.SpM):
            log.append(("cg", "solve"))
            return S.solve_contract(A, b, "cg"), 0
        return real_cg(A, b, **k)

    linalg_module.cg = cg
    return log
