"""C19 -- patching tiles an image exactly.

Real code executed symbolically: Patches.__init__/__call__/assemble, Image.subregion,
CoordinateSystem.num_voxels/voxel/coordinate, to_cartesian_indexing.
Symbolic: pixel data, physical dimensions, origin, the relative overlap rho in [0, 1/2]
(the overlap width in voxels is concretised by solver-guided case split: one path per
distinct width).
"""
import itertools

import numpy as np

from symx import api as S

PROPERTY = "C19"
OPTIONS = dict(validate=12, query_timeout_ms=60000, max_paths=200, warmup="first")
STUBS = []
OUTSIDE = ["IEEE rounding of ceil((D/n)/(D/nv)) (covered by the FP lemma where decided)", "3-D and space-time patches (NotImplementedError by design)", "blend_and_assemble weights"]
ASSUMPTIONS = ["patch counts for which patches can be built: every patch non-empty, i.e. (n-1)*ceil(nv/n) < nv per axis"]


def bounds(tier):
    if tier == "quick":
        return "2-D shapes with extents in {1,2,3,4,5,7,8} x {1,2,4,5,6}, patch counts 1..3 per axis (buildable ones), relative overlap symbolic in [0, 1/2], scalar and 3-channel data, dimensions and origin symbolic"
    return "all 2-D shapes with extents 1..12 on one axis (other axis 1..4) and patch counts 1..6, plus 13x15 / 20x3 / 40x2 with counts up to 6; overlap symbolic"


def _buildable(nv, n):
    pv = -(-nv // n)
    return (n - 1) * pv < nv


def configs(tier):
    out = []
    if tier == "quick":
        shapes = [(a, b) for a in (1, 2, 3, 4, 5, 7, 8) for b in (1, 2, 4, 5, 6)]
        shapes = [s for s in shapes if s[0] * s[1] <= 30]
        counts = range(1, 4)
    else:
        shapes = [(a, b) for a in range(1, 13) for b in range(1, 5)] + [(13, 15), (20, 3), (40, 2), (3, 20)]
        counts = range(1, 7)
    for shape in shapes:
        for n0, n1 in itertools.product(counts, repeat=2):
            if not (_buildable(shape[0], n0) and _buildable(shape[1], n1)):
                continue
            if tier == "quick" and (n0, n1) not in ((1, 1), (2, 2), (1, 3), (3, 2), (2, 1), (3, 3)):
                continue
            if tier != "quick" and shape[0] * shape[1] > 60 and n0 * n1 > 12:
                continue
            div = shape[0] % n0 == 0 and shape[1] % n1 == 0
            out.append(dict(shape=list(shape), counts=[n0, n1], colour=False, divisible=div))
    # bit-precise lemma: the ceil() that sizes the patches, in IEEE doubles
    pairs = [(nv, n) for nv in range(1, 13 if tier == "quick" else 41) for n in range(1, 7) if _buildable(nv, n)]
    if tier == "quick":
        pairs = [p for p in pairs if p[0] in (1, 2, 3, 6, 7, 9, 10, 12)]
    for nv, n in pairs:
        out.append(dict(fp=True, nv=nv, n=n))
    # integer-typed geometry (python ints for dimensions and origin, as users write them)
    out.append(dict(shape=[4, 6], counts=[2, 3], colour=False, divisible=True, int_geometry=True))
    out.append(dict(shape=[3, 4], counts=[3, 2], colour=False, divisible=True, int_geometry=True))
    out.append(dict(shape=[4, 6], counts=[2, 3], colour=True, divisible=True))
    out.append(dict(shape=[5, 4], counts=[2, 3], colour=True, divisible=False))
    return out


class _Stop(Exception):
    pass


def body_fp(cfg, darsia):
    """patch size in voxels must equal ceil(nv/n) for EVERY physical extent D, in IEEE doubles.
    The real Patches.__init__ runs on a floating-point symbol D up to the point where the patch size
    is known (the sub-image extraction is cut off)."""
    nv, n = cfg["nv"], cfg["n"]
    D = S.fp("D", 1e-4, 1e4)
    img = darsia.Image(np.zeros((nv, 2)), dimensions=[D, 1.0], scalar=True)

    def stop(*a, **k):
        raise _Stop()

    img.subregion = stop
    P = object.__new__(darsia.Patches)
    try:
        darsia.Patches.__init__(P, img, [n, 1])
    except _Stop:
        pass
    S.claim("fp_patch_size_in_voxels_is_ceil_of_extent_over_count", S.eq(P.pv[0], -(-nv // n)))


def body(cfg):
    import darsia

    if cfg.get("fp"):
        return body_fp(cfg, darsia)
    shape = tuple(cfg["shape"])
    n = cfg["counts"]
    full = shape + ((3,) if cfg["colour"] else ())
    a = S.array("a", full, lo=-10, hi=10)
    dims = [S.real("d0", lo="1/10000", hi=10000), S.real("d1", lo="1/10000", hi=10000)]
    org = [S.real("o0", lo=-100, hi=100), S.real("o1", lo=-100, hi=100)]
    if cfg.get("int_geometry"):
        dims, org = [3, 5], [2, 7]
    rho = S.real("rho", lo=0, hi="1/2")
    img = darsia.Image(a.copy(), dimensions=list(dims), origin=list(org), scalar=not cfg["colour"])
    P = darsia.Patches(img, list(n), rel_overlap=rho)
    nv = list(shape)
    pv_exp = [-(-nv[m] // n[m]) for m in range(2)]
    S.claim("patch_size_is_ceil_of_extent_over_count", S.eq([P.pv[0], P.pv[1]], pv_exp))
    pv = [int(S.tofloat(x)) if not S.symbolic() else _c(x) for x in P.pv]
    ov = [int(S.tofloat(x)) if not S.symbolic() else _c(x) for x in P.ov]
    S.observe("pv_ov", pv + ov)
    # ---- interiors tile the image: consecutive, disjoint, covering
    cover = np.zeros(shape, dtype=int)
    ok_sub, ok_int = [], []
    for i in range(n[0]):
        for j in range(n[1]):
            roi = P.rois[i][j]
            rel = P.relative_rois_without_overlap[i][j]
            patch = P(i, j)
            # each patch is the sub-image of its ROI
            sub = img.subregion(roi)
            same = tuple(patch.img.shape) == tuple(sub.img.shape)
            ok_sub.append(S.and_(same, S.eq(patch.img, sub.img) if same else False, S.eq(list(patch.origin), list(sub.origin)), S.eq(list(patch.dimensions), list(sub.dimensions))))
            r0 = [roi[m].start for m in range(2)]
            inner = patch.img[rel]
            g0 = [int(r0[m]) + int(rel[m].start) for m in range(2)]
            g1 = [g0[m] + inner.shape[m] for m in range(2)]
            cover[g0[0] : g1[0], g0[1] : g1[1]] += 1
            # the interior is the block at the advertised voxel corners
            c = P.global_corners_voxels[i, j]
            lo_, hi_ = c[0], c[2]
            blk = a[int(lo_[0]) : int(hi_[0]), int(lo_[1]) : int(hi_[1])]
            # all four advertised voxel corners: (lo,lo), (hi,lo), (hi,hi), (lo,hi) of the interior block
            rect = [[g0[0], g0[1]], [g1[0], g0[1]], [g1[0], g1[1]], [g0[0], g1[1]]]
            ok_int.append([[int(v) for v in c[kx]] for kx in range(4)] == rect)
            ok_int.append(S.and_(tuple(inner.shape) == tuple(blk.shape), S.eq(inner, blk) if tuple(inner.shape) == tuple(blk.shape) else False, [g0[0], g0[1], g1[0], g1[1]] == [int(lo_[0]), int(lo_[1]), int(hi_[0]), int(hi_[1])]))
    S.claim("interiors_tile_the_image_without_gaps_or_double_cover", bool((cover == 1).all()))
    S.claim("each_patch_is_the_subimage_of_its_roi", S.and_(ok_sub))
    S.claim("patch_interior_is_the_block_at_its_advertised_voxel_corners", S.and_(ok_int))
    asm = P.assemble()
    S.claim("reassembly_reproduces_the_image", S.and_(tuple(asm.img.shape) == tuple(a.shape), S.eq(asm.img, a) if tuple(asm.img.shape) == tuple(a.shape) else False, S.eq(list(asm.dimensions), dims), S.eq(list(asm.origin), org)))
    S.claim("base_image_untouched", S.eq(img.img, a))
    # ---- advertised centres / corners: voxel and physical units agree under the base coordinate system
    cs = img.coordinatesystem
    okc, okm = [], []
    for i in range(n[0]):
        for j in range(n[1]):
            for kx in range(4):
                vox = [int(v) for v in P.global_corners_voxels[i, j][kx]]
                okc.append(S.eq(list(cs.coordinate(vox)), list(P.global_corners_cartesian[i, j][kx])))
            cc = P.global_centers_cartesian[i, j]
            mean = [sum(P.global_corners_cartesian[i, j][kx][t] for kx in range(4)) / 4 for t in range(2)]
            okm.append(S.eq(list(cc), mean))
            okm.append(S.eq(list(cs.voxel(np.asarray(cc))), [int(v) for v in P.global_centers_voxels[i, j]]))
    S.claim("advertised_corners_agree_in_voxel_and_physical_units", S.and_(okc))
    S.claim("advertised_centres_are_consistent", S.and_(okm))


def _c(x):
    from symx.core import ENGINE, Sym, term

    if isinstance(x, Sym):
        return ENGINE.concretize_int(term(x))
    return int(x)
