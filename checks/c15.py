"""C15 -- every quadrature rule is exact to its nominal degree.

The real `quadrature.gauss / gauss_reference_cell / reference_cell_corners` are executed
with float literals lifted to exact rationals and np.sqrt to algebraic numbers; the
coefficients of the generic polynomial are symbolic, so one unsat query per rule covers
every polynomial of the nominal degree.
"""
import itertools
from fractions import Fraction

import numpy as np

from symx import api as S

PROPERTY = "C15"
OPTIONS = dict(exact_literal_modules=["darsia.utils.quadrature"], validate="all", query_timeout_ms=60000)
BOUNDS = "every (dim, order) with dim in 1..3, order in 0..5 and 'max' (orders the API rejects with NotImplementedError are skipped); both [-1,1]^d and the unit cell; corner rule dim 1..3; polynomial coefficients symbolic (unbounded reals)"
STUBS = ["float literals of darsia.utils.quadrature lifted to exact rationals from their source text", "np.sqrt(q) = the non-negative real y with y*y = q"]
OUTSIDE = ["floating-point rounding of the tables (replay compares in doubles at 1e-9)"]
ASSUMPTIONS = ["nominal degree: per-variable degree 2n-1 with n = order+1 points per direction ('max' -> n = number of points ** (1/dim))"]


def configs(tier):
    out = []
    for dim in (1, 2, 3):
        for order in [0, 1, 2, 3, 4, 5, "max"]:
            for cell in ("reference", "unit"):
                out.append(dict(rule="gauss", dim=dim, order=order, cell=cell))
        out.append(dict(rule="corners", dim=dim))
    # call histories: the other variant (or the same rule, whose returned arrays the caller then scales in
    # place) was requested earlier in the same process
    for dim in (1, 2, 3):
        for order in ([0, 1, "max"] if tier == "quick" else [0, 1, 2, 3, 4, "max"]):
            for cell in ("reference", "unit"):
                for after in ("other_variant", "same_rule_result_scaled"):
                    out.append(dict(rule="gauss", dim=dim, order=order, cell=cell, after=after))
        out.append(dict(rule="corners", dim=dim, after="same_rule_result_scaled"))
    return out


def prepare(cfg):
    if S.instrumented():
        from symx.core import ENGINE

        ENGINE.exact_literals = True


def _monomial_integral(alpha, lo, hi):
    r = Fraction(1)
    for a in alpha:
        r *= (Fraction(hi) ** (a + 1) - Fraction(lo) ** (a + 1)) / (a + 1)
    return r


def body(cfg):
    import darsia

    q = darsia.quadrature
    dim = cfg["dim"]
    if cfg.get("after"):
        try:
            if cfg["rule"] == "corners":
                p0, w0 = q.reference_cell_corners(dim)
            elif cfg["after"] == "other_variant":
                p0, w0 = (q.gauss_reference_cell if cfg["cell"] == "reference" else q.gauss)(dim, cfg["order"])
            else:
                p0, w0 = (q.gauss if cfg["cell"] == "reference" else q.gauss_reference_cell)(dim, cfg["order"])
            if cfg["after"] == "same_rule_result_scaled":
                w0 *= 3  # what a caller may do with the arrays it was handed
                p0 += 1
        except NotImplementedError:
            pass
    if cfg["rule"] == "corners":
        pts, w = q.reference_cell_corners(dim)
        lo, hi, deg = 0, 1, 1
    else:
        fn = q.gauss if cfg["cell"] == "reference" else q.gauss_reference_cell
        try:
            pts, w = fn(dim, cfg["order"])
        except NotImplementedError:
            S.claim("rejected_order", S.true())
            return
        lo, hi = (-1, 1) if cfg["cell"] == "reference" else (0, 1)
        n = len(pts)
        npd = cfg["order"] + 1 if cfg["order"] != "max" else round(n ** (1.0 / dim))
        deg = 2 * npd - 1
    n = len(pts)
    S.claim("as_many_weights_as_points", len(w) == n)
    if len(w) != n:
        return
    P = np.asarray(pts).reshape(n, dim)
    S.claim("weights_positive", S.and_([S.lt(0, wi) for wi in w]))
    S.claim("weights_sum_to_measure", S.eq(sum(w[i] for i in range(n)), (hi - lo) ** dim))
    S.observe("weight_sum", sum(w[i] for i in range(n)))
    S.observe("first_point", P[0])
    # generic polynomial with symbolic coefficients
    quad = 0
    exact = 0
    for alpha in itertools.product(range(deg + 1), repeat=dim):
        c = S.real("c_" + "_".join(map(str, alpha)), lo=-4, hi=4)
        acc = 0
        for k in range(n):
            m = w[k]
            for d in range(dim):
                for _ in range(alpha[d]):
                    m = m * P[k, d]
            acc = acc + m
        quad = quad + c * acc
        I = _monomial_integral(alpha, lo, hi)
        exact = exact + c * S.const(I)
        if sum(alpha) <= 1:
            # constants and linear functions individually (named separately for diagnosis)
            S.claim("exact_monomial_" + "".join(map(str, alpha)), S.eq(acc, S.const(I)))
    S.claim(f"exact_to_degree_{deg}_per_variable", S.eq(quad, exact))
