"""C03 -- geometric integration is the weighted voxel sum at any resolution and history.

Real code executed symbolically: every Geometry class' __init__, integrate, normalize;
arithmetics.weight.  Symbolic: data, dimensions / voxel sizes, scalar and per-voxel
weights, linear-combination coefficients; the HISTORY enters as a symbolic pre-state of
the volume cache (one inductive step covers call sequences of any length) and as explicit
call sequences through the real code.
"""
import itertools

import numpy as np

from symx import api as S

PROPERTY = "C03"
OPTIONS = dict(validate=14, query_timeout_ms=60000)
STUBS = ["cv2.resize(INTER_AREA) on symbolic arrays = exact area resampling (block mean for shrinking, replication for integer zoom); validated against real cv2 on constants every run"]
OUTSIDE = ["non-integer zoom of array weights (OpenCV interpolates linearly there)", "floating-point rounding"]
ASSUMPTIONS = ["dimensions / voxel sizes / weights positive", "cache invariant for scalar volumes: cached = volume * s for some s > 0 (the only assignment in the code)"]

NATIVE = {1: (4,), 2: (2, 4), 3: (2, 2, 2)}
BASE = {1: (1,), 2: (1, 2), 3: (1, 2, 1)}  # grid on which the piecewise-constant field lives
RES = {
    1: {"base": (1,), "native": (4,), "finer": (8,), "other": (2,), "fine3": (12,)},
    2: {"base": (1, 2), "native": (2, 4), "finer": (4, 8), "other": (2, 2), "coarse1": (1, 4), "fine3": (6, 4)},
    3: {"base": (1, 2, 1), "native": (2, 2, 2), "finer": (2, 4, 4), "other": (1, 2, 2)},
}
GEOMS = ["plain", "weighted_scalar", "weighted_array", "extruded_scalar", "extruded_array", "porous_scalar", "porous_array"] + [f"extporous_{p}_{d}" for p in ("float", "ndarray", "Image") for d in ("float", "ndarray", "Image")]
ALPHABET = ["native", "base", "finer", "other"]


def bounds(tier):
    return ("dims 1..3 with native shapes %s; piecewise-constant fields supplied at %s; all geometry classes incl. 9 porosity/depth type combinations; data array/Image, scalar/vector/series; cache pre-state symbolic (scalar volumes) or any earlier shape (array volumes); explicit call sequences of length <= %d over {native, base, finer, other}" % (NATIVE, RES, 3 if tier == "quick" else 5))


def configs(tier):
    out = []
    quick = tier == "quick"
    for dim in (1, 2, 3):
        for g in GEOMS:
            if dim != 2 and g.startswith("extporous") and g not in ("extporous_float_float", "extporous_ndarray_ndarray", "extporous_Image_float"):
                continue
            for payload in (("scalar", "vector", "series") if (g in ("plain", "weighted_array") or not quick) else ("scalar",)):
                for as_image in ((False, True) if (g in ("plain", "extruded_array") or not quick) else (False,)):
                    out.append(dict(kind="sum", dim=dim, geom=g, payload=payload, image=as_image))
            out.append(dict(kind="resolution", dim=dim, geom=g, payload="scalar"))
            if g in ("plain", "weighted_array", "extporous_Image_ndarray"):
                out.append(dict(kind="resolution", dim=dim, geom=g, payload="vector"))
            out.append(dict(kind="normalize", dim=dim, geom=g, payload="scalar"))
        out.append(dict(kind="normalize", dim=dim, geom="weighted_array", payload="series"))
        out.append(dict(kind="normalize", dim=dim, geom="plain", payload="vector"))
        out.append(dict(kind="normalize", dim=dim, geom="plain", payload="series_vector"))
        if dim == 2 or not quick:
            out.append(dict(kind="normalize", dim=dim, geom="weighted_array", payload="series_vector"))
            out.append(dict(kind="sum", dim=dim, geom="weighted_array", payload="series_vector", image=True))
    # histories
    maxlen = 3 if quick else 5
    for dim, g in ((2, "plain"), (2, "weighted_scalar"), (2, "weighted_array"), (1, "extruded_scalar"), (3, "porous_scalar"), (2, "extporous_Image_float")):
        for prev in (["fresh"] + ALPHABET):
            out.append(dict(kind="inductive", dim=dim, geom=g, prev=prev))
        for n in range(2, maxlen + 1):
            for seq in itertools.product(ALPHABET, repeat=n):
                if quick and n == 3 and (dim != 2 or g == "weighted_scalar" or "native" not in seq[1:]):
                    continue
                if not quick and n >= 4 and (g not in ("plain", "weighted_array") or seq[-1] != "native" and n == 5):
                    continue
                out.append(dict(kind="history", dim=dim, geom=g, seq=list(seq)))
    # histories over coarsenings that are NOT nested in each other (6 -> 3 -> 2), array volumes
    for native, shapes in (((1, 6), [(1, 6), (1, 3), (1, 2)]),) + (() if quick else (((2, 6), [(2, 6), (1, 3), (2, 3), (2, 2), (1, 2), (1, 6)]), ((6, 2), [(6, 2), (3, 2), (2, 2), (3, 1), (2, 1)]))):
        for g in ("weighted_array", "extporous_Image_ndarray", "porous_array"):
            for n_ in (2, 3):
                for seq in itertools.product(shapes, repeat=n_):
                    if len(set(seq)) == 1 or (n_ == 3 and (not quick) and len(shapes) > 3 and seq[0] == seq[1]):
                        continue
                    out.append(dict(kind="history_shapes", dim=2, geom=g, native=list(native), seq=[list(x) for x in seq]))
    return out


def install_stubs():
    import cv2 as real_cv2

    import darsia.image.arithmetics as ar
    import darsia.measure.integration as integ
    from . import stubs

    proxy = stubs.make_cv2(real_cv2)
    integ.cv2 = proxy
    ar.cv2 = proxy


# ------------------------------------------------------------------------------


def _dt():
    return object if S.instrumented() else float


def make_geometry(darsia, cfg, tag=""):
    """returns (geometry, per-voxel volume array at native resolution, dims)"""
    dim = cfg["dim"]
    n = tuple(cfg.get("native") or NATIVE[dim])
    dims = [S.real(f"d{m}", lo="1/100", hi=100) for m in range(dim)]
    h = [dims[m] / n[m] for m in range(dim)]
    vol = 1
    for m in range(dim):
        vol = vol * h[m]
    g = cfg["geom"]
    kw = dict(space_dim=dim, num_voxels=n)
    if g in ("plain", "weighted_array", "extporous_Image_float", "porous_array") or g.startswith("extporous_nd"):
        kw["dimensions"] = list(dims)
    else:
        kw["voxel_size"] = list(h)

    def arr(name):
        return S.array(name, n, lo="1/10", hi=10)

    def img(a):
        return darsia.Image(a.copy(), dimensions=list(dims), space_dim=dim, scalar=True)

    volarr = np.empty(n, dtype=_dt())
    if g == "plain":
        geo = darsia.Geometry(**kw)
        volarr[...] = vol
    elif g in ("weighted_scalar", "extruded_scalar", "porous_scalar"):
        w = S.real("w", lo="1/10", hi=10)
        cls = {"weighted_scalar": darsia.WeightedGeometry, "extruded_scalar": darsia.ExtrudedGeometry, "porous_scalar": darsia.PorousGeometry}[g]
        geo = cls(w, **kw)
        volarr[...] = vol * w
    elif g in ("weighted_array", "extruded_array", "porous_array"):
        w = arr("w")
        cls = {"weighted_array": darsia.WeightedGeometry, "extruded_array": darsia.ExtrudedGeometry, "porous_array": darsia.PorousGeometry}[g]
        geo = cls(w.copy(), **kw)
        volarr = vol * w
    else:
        _, pk, dk = g.split("_")
        vals = {}
        for nm, k in (("por", pk), ("dep", dk)):
            if k == "float":
                vals[nm] = (S.real(nm, lo="1/10", hi=10),) * 2
            else:
                a = arr(nm)
                vals[nm] = (a.copy() if k == "ndarray" else img(a), a)
        geo = darsia.ExtrudedPorousGeometry(vals["por"][0], vals["dep"][0], **kw)
        volarr = np.empty(n, dtype=_dt())
        volarr[...] = vol
        volarr = volarr * vals["por"][1] * vals["dep"][1]
    return geo, volarr, dims


def tail_shape(payload):
    return {"scalar": (), "vector": (2,), "series": (2,), "series_vector": (2, 2)}[payload]


def wrap_data(darsia, cfg, a, dims, as_image):
    if not as_image:
        return a
    p = cfg["payload"]
    return darsia.Image(a, dimensions=list(dims), space_dim=cfg["dim"], scalar=(p in ("scalar", "series")), series=p.startswith("series"), time=[0.0, 1.0] if p.startswith("series") else None)


def weighted_sum(data, volarr, dim):
    """oracle: sum over voxels of data * volume, per trailing index"""
    tail = data.shape[dim:]
    out = np.zeros(tail, dtype=_dt())
    for v in np.ndindex(*data.shape[:dim]):
        out = out + data[v] * volarr[v]
    return out


def expand(field, res, dim):
    """piecewise-constant field given on BASE[dim], sampled at resolution res"""
    a = field
    for m in range(dim):
        a = np.repeat(a, res[m] // field.shape[m], axis=m)
    return a


def block_volumes(volarr, base, dim):
    """total volume of the native voxels inside each base cell"""
    n = volarr.shape
    out = np.zeros(base, dtype=_dt())
    for v in np.ndindex(*n):
        b = tuple(v[m] * base[m] // n[m] for m in range(dim))
        out[b] = out[b] + volarr[v]
    return out


def body(cfg):
    import darsia

    dim = cfg["dim"]
    kind = cfg["kind"]
    geo, volarr, dims = make_geometry(darsia, cfg)
    n = tuple(cfg.get("native") or NATIVE[dim])
    tail = tail_shape(cfg.get("payload", "scalar"))
    arrayvol = isinstance(geo.voxel_volume, np.ndarray)
    if kind == "sum":
        a = S.array("a", n + tail, lo=-10, hi=10)
        b = S.array("b", n + tail, lo=-10, hi=10)
        al, be = S.real("alpha", lo=-5, hi=5), S.real("beta", lo=-5, hi=5)
        Ia = geo.integrate(wrap_data(darsia, cfg, a.copy(), dims, cfg["image"]))
        Ib = geo.integrate(wrap_data(darsia, cfg, b.copy(), dims, cfg["image"]))
        Iab = geo.integrate(wrap_data(darsia, cfg, al * a + be * b, dims, cfg["image"]))
        S.observe("Ia", Ia)
        S.claim("integral_is_sum_of_data_times_effective_voxel_volume", S.and_(np.shape(Ia) == tail, S.eq(Ia, weighted_sum(a, volarr, dim))))
        S.claim("integral_is_linear_in_the_data", S.eq(Iab, al * Ia + be * Ib))
        S.claim("data_untouched", S.eq(a, S.array("a", n + tail, lo=-10, hi=10)))
        return
    base = BASE[dim]
    bv = block_volumes(volarr, base, dim)
    if kind == "resolution":
        q = S.array("q", base + tail, lo=-10, hi=10)
        exp = weighted_sum(q, bv, dim)
        for name, res in RES[dim].items():
            if arrayvol and dim != 2 and res != n:
                continue  # documented: array volumes at another resolution only in 2-D
            fresh, _, _ = make_geometry(darsia, cfg)
            val = fresh.integrate(expand(q, res, dim))
            S.claim(f"same_value_at_resolution_{name}", S.eq(val, exp))
            S.observe(f"val_{name}", val)
        if arrayvol and dim != 2:
            try:
                geo.integrate(expand(q, RES[dim]["finer"], dim))
                S.claim("array_volume_other_resolution_rejected_outside_2d", False)
            except ValueError:
                S.claim("array_volume_other_resolution_rejected_outside_2d", True)
        return
    if kind == "normalize":
        a = S.array("a", n + tail, lo="1/10", hi=10)
        b = S.array("b", n + tail, lo="1/10", hi=10)
        p = cfg["payload"]
        mk = lambda x: darsia.Image(x, dimensions=list(dims), space_dim=dim, scalar=(p in ("scalar", "series")), series=p.startswith("series"), time=[0.0, 1.0] if p.startswith("series") else None)  # noqa: E731
        A, B = mk(a.copy()), mk(b.copy())
        N = geo.normalize(A, B)
        S.claim("normalised_image_has_the_reference_integral", S.eq(geo.integrate(N), geo.integrate(B)))
        S.claim("normalise_leaves_its_inputs", S.and_(S.eq(A.img, a), S.eq(B.img, b)))
        S.observe("normalised", N.img)
        return
    if kind == "history_shapes":
        # earlier calls integrate ARBITRARY data at other (not nested) resolutions; the last call
        # integrates a field that is piecewise constant on its own resolution
        seq = [tuple(x) for x in cfg["seq"]]
        S.set_rtol(1e-6)  # real cv2 rounds the shrink factor 1/3 to float32 (relative 3e-8): rounding is outside the claim
        for k, shp in enumerate(seq[:-1]):
            geo.integrate(S.array(f"r{k}", shp, lo=-10, hi=10))
        q = S.array("q", seq[-1], lo=-10, hi=10)
        val = geo.integrate(q.copy())
        fresh, _, _ = make_geometry(darsia, cfg)
        S.claim("last_call_equals_fresh_object", S.eq(val, fresh.integrate(q.copy())))
        S.claim("last_call_is_the_weighted_sum", S.eq(val, weighted_sum(q, block_volumes(volarr, seq[-1], dim), dim)))
        return
    # ---- histories
    q = S.array("q", base, lo=-10, hi=10)
    exp = weighted_sum(q, bv, dim)
    res_of = RES[dim]
    if kind == "inductive":
        # one step from an arbitrary reachable cache state
        prev = cfg["prev"]
        if not arrayvol:
            if prev != "fresh":
                s = S.real("s", lo="1/1000", hi=1000)
                geo.cached_voxel_volume = geo.voxel_volume * s  # every state an earlier call can leave
            for name in ALPHABET:
                g2, _, _ = (geo, None, None)
                saved = geo.cached_voxel_volume
                val = geo.integrate(expand(q, res_of[name], dim))
                geo.cached_voxel_volume = saved
                S.claim(f"value_at_{name}_independent_of_cache_state", S.eq(val, exp))
        else:
            if dim != 2:
                raise S.HarnessSkip("array volumes at another resolution only in 2-D")
            for name in ALPHABET:
                g2, _, _ = make_geometry(darsia, cfg)
                if prev != "fresh":
                    g2.integrate(expand(q, res_of[prev], dim))  # leaves the cache in the state 'prev'
                val = g2.integrate(expand(q, res_of[name], dim))
                S.claim(f"value_at_{name}_independent_of_cache_state", S.eq(val, exp))
        return
    if kind == "history":
        if arrayvol and dim != 2:
            raise S.HarnessSkip("array volumes at another resolution only in 2-D")
        seq = cfg["seq"]
        r = S.array("r", base, lo=-10, hi=10)  # earlier calls integrate other data
        for name in seq[:-1]:
            geo.integrate(expand(r, res_of[name], dim))
        val = geo.integrate(expand(q, res_of[seq[-1]], dim))
        fresh, _, _ = make_geometry(darsia, cfg)
        S.claim("last_call_equals_fresh_object", S.eq(val, fresh.integrate(expand(q, res_of[seq[-1]], dim))))
        S.claim("last_call_is_the_weighted_sum", S.eq(val, exp))
        S.observe("val", val)
