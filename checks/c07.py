"""C07 -- grid numbering and connectivity form a consistent bijection.

The numbering code (`Grid._setup`) only runs at concrete sizes, so shapes are enumerated
(stated as such).  Per shape the tables produced by the real code are loaded as finite
functions (ite chains) and every statement is asserted for SYMBOLIC face / cell / side
indices against the closed form; z3 decides them over the whole index range at once.
`generate_grid` is executed with symbolic physical dimensions.
"""
import itertools

import numpy as np

from symx import api as S
from . import oracles as O

PROPERTY = "C07"
OPTIONS = dict(validate=6, query_timeout_ms=60000)
STUBS = []
OUTSIDE = ["shapes beyond the stated extents"]
ASSUMPTIONS = ["'interior'/'exterior' faces: only the partition stated by the property is asserted, not a particular definition"]


def bounds(tier):
    if tier == "quick":
        return "all shapes with extents 1..4 in 1-D, 2-D, 3-D (enumerated); face, cell, side, corner-slot indices symbolic over their whole range; generate_grid with symbolic dimensions on 2 shapes per dimension"
    return "all shapes with extents 1..12 (1-D), 1..7 (2-D), 1..5 (3-D) (enumerated, the property's full range); indices symbolic"


def configs(tier):
    out = []
    if tier == "quick":
        rng = {1: range(1, 5), 2: range(1, 5), 3: range(1, 5)}
    else:
        rng = {1: range(1, 13), 2: range(1, 8), 3: range(1, 6)}
    for dim in (1, 2, 3):
        for shape in itertools.product(rng[dim], repeat=dim):
            out.append(dict(kind="tables", shape=list(shape)))
    for shape in ([3], [1], [2, 3], [1, 4], [2, 1, 3], [2, 2, 2]):
        out.append(dict(kind="image", shape=shape))
    # image-sized grids (tens of thousands of cells): the same statements, evaluated vectorised on the
    # concrete tables (no symbolic index here: the tables are far too large to load into the solver)
    for shape in ([[182, 181]] if tier == "quick" else [[182, 181], [260, 250], [32, 33, 32], [40000]]):
        out.append(dict(kind="large", shape=shape))
    # image-derived grids for concrete extents in doubles (a shape recomputed from extent / voxel size can lose a cell)
    out.append(dict(kind="image_doubles", shape=[2]))
    return out


def _decode(local, fshape):
    """multi-index (Fortran order) of a possibly symbolic local number"""
    idx = []
    stride = 1
    for n in fshape:
        idx.append(S.int_mod(S.int_div(local, stride), n) if n > 0 else 0)
        stride *= max(n, 1)
    return idx


def _encode(idx, shape):
    c, stride = 0, 1
    for i, n in zip(idx, shape):
        c = c + i * stride
        stride *= n
    return c


def body(cfg):
    import darsia

    shape = tuple(cfg["shape"])
    dim = len(shape)
    if cfg["kind"] == "image":
        return body_image(cfg, darsia, shape, dim)
    if cfg["kind"] == "large":
        return body_large(cfg, darsia, shape, dim)
    if cfg["kind"] == "image_doubles":
        bad = []
        for D in (0.9, 1.0, 0.7, 1.1, 2.3, 0.35):
            for n in range(1, 101):
                img = darsia.Image(np.zeros((n, 2)), dimensions=[D, 1.0], scalar=True)
                g = darsia.generate_grid(img)
                if tuple(int(x) for x in g.shape) != (n, 2) or int(g.num_cells) != 2 * n:
                    bad.append((D, n))
        S.claim("image_grid_shape_is_the_voxel_shape_for_concrete_extents", not bad)
        return
    grid = darsia.Grid(shape, [0.5, 0.25, 2.0][:dim])
    nc = int(np.prod(shape))
    nfa = [O.num_faces_axis(d, shape) for d in range(dim)]
    nf = sum(nfa)
    off = [sum(nfa[:d]) for d in range(dim)]
    S.claim("counts_follow_from_shape", int(grid.num_cells) == nc and int(grid.num_faces) == nf and [int(x) for x in grid.num_faces_per_axis] == nfa)
    S.claim("faces_per_axis_are_consecutive_ranges", all([int(x) for x in grid.faces[d]] == list(range(off[d], off[d] + nfa[d])) for d in range(dim)))
    S.claim("table_shapes", grid.connectivity.shape == (nf, 2) and grid.reverse_connectivity.shape == (dim, nc, 2) and grid.cell_corner_indices.shape == (nf, 2, 2 ** (dim - 1)) and grid.cell_index.shape == shape and all(tuple(grid.face_index[d].shape) == O.faces_shape(d, shape) for d in range(dim)))
    S.observe("connectivity", grid.connectivity)
    S.observe("reverse_connectivity", grid.reverse_connectivity)

    conn0 = [int(x) for x in grid.connectivity[:, 0]]
    conn1 = [int(x) for x in grid.connectivity[:, 1]]
    cellidx = [int(x) for x in np.ravel(grid.cell_index, "F")]
    # cell numbering: Fortran order
    c = S.integer("c", 0, nc - 1)
    ci = _decode(c, shape)
    S.claim("cell_index_is_fortran_order", S.eq(S.lookup(cellidx, c), c))

    for d in range(dim):
        if nfa[d] == 0:
            continue
        fs = O.faces_shape(d, shape)
        l = S.integer(f"l{d}", 0, nfa[d] - 1)  # local face number within axis d
        f = l + off[d]
        j = _decode(l, fs)
        lo = _encode(j, shape)
        hi = _encode([j[e] + (1 if e == d else 0) for e in range(dim)], shape)
        fidx = [int(x) for x in np.ravel(grid.face_index[d], "F")]
        S.claim(f"face_index_axis{d}_is_fortran_order", S.eq(S.lookup(fidx, l), f))
        a, b = S.lookup(conn0, f), S.lookup(conn1, f)
        S.claim(f"face_axis{d}_joins_the_two_neighbours_along_its_normal_in_increasing_order", S.and_(S.eq(a, lo), S.eq(b, hi), S.lt(a, b)))
        # exact inverse: cell -> face lookup
        r0 = [int(x) for x in grid.reverse_connectivity[d, :, 0]]
        r1 = [int(x) for x in grid.reverse_connectivity[d, :, 1]]
        S.claim(f"reverse_connectivity_axis{d}_inverts_connectivity", S.and_(S.eq(S.lookup(r1, a), f), S.eq(S.lookup(r0, b), f)))
        # corners recorded for the face lie on it
        corners = [[float(v) for v in row] for row in grid.cell_corners]
        S.claim("reference_corners_are_the_unit_cell_corners", sorted(tuple(r) for r in corners) == sorted(tuple(float(v) for v in p) for p in itertools.product([0.0, 1.0], repeat=dim)))
        nslot = 2 ** (dim - 1)
        for side in (0, 1):
            want = 1.0 if side == 0 else 0.0  # lower cell sees the face at its high side
            on_face = [1 if corners[k][d] == want else 0 for k in range(2**dim)]
            ok = []
            slots = []
            for s_ in range(nslot):
                tab = [int(x) for x in grid.cell_corner_indices[:, side, s_]]
                k = S.lookup(tab, f)
                slots.append(k)
                ok.append(S.and_(S.le(0, k), S.lt(k, 2**dim), S.eq(S.lookup(on_face, S.min_(S.max_(k, 0), 2**dim - 1)), 1)))
            for x, y in itertools.combinations(slots, 2):
                ok.append(S.not_(S.eq(x, y)))
            S.claim(f"corner_indices_axis{d}_side{side}_lie_on_the_face_and_are_distinct", S.and_(ok))
    # cell -> face lookup: closed form, 'no face' exactly on the outer boundary
    for d in range(dim):
        r0 = [int(x) for x in grid.reverse_connectivity[d, :, 0]]
        r1 = [int(x) for x in grid.reverse_connectivity[d, :, 1]]
        fs = O.faces_shape(d, shape)
        left = off[d] + _encode([ci[e] - (1 if e == d else 0) for e in range(dim)], fs)
        right = off[d] + _encode(ci, fs)
        v0, v1 = S.lookup(r0, c), S.lookup(r1, c)
        S.claim(f"cell_to_face_axis{d}_closed_form_and_no_face_only_on_boundary", S.and_(
            S.eq(v0, S.ite(S.eq(ci[d], 0), -1, left)),
            S.eq(v1, S.ite(S.eq(ci[d], shape[d] - 1), -1, right)),
            S.iff(S.eq(v0, -1), S.eq(ci[d], 0)),
            S.iff(S.eq(v1, -1), S.eq(ci[d], shape[d] - 1)),
        ))
        if nfa[d] > 0:
            # every reported face points back to the cell
            S.claim(f"cell_to_face_axis{d}_points_back", S.and_(
                S.implies(S.not_(S.eq(v0, -1)), S.eq(S.lookup(conn1, S.max_(v0, 0)), c)),
                S.implies(S.not_(S.eq(v1, -1)), S.eq(S.lookup(conn0, S.max_(v1, 0)), c)),
            ))
        # interior / exterior partition of the faces of the axis
        inter = sorted(int(x) for x in grid.interior_faces[d])
        exter = sorted(int(x) for x in grid.exterior_faces[d])
        S.claim(f"interior_exterior_partition_axis{d}", len(set(inter)) == len(inter) and len(set(exter)) == len(exter) and not (set(inter) & set(exter)) and sorted(inter + exter) == list(range(off[d], off[d] + nfa[d])))
    # each face numbered exactly once over all axes
    S.claim("every_face_numbered_exactly_once", sorted(int(x) for d in range(dim) for x in grid.faces[d]) == list(range(nf)))
    # voxel sizes / face areas
    hs = [0.5, 0.25, 2.0][:dim]
    S.claim("face_areas", S.eq([grid.face_vol[d] for d in range(dim)], [float(np.prod([hs[e] for e in range(dim) if e != d])) for d in range(dim)]))


def body_large(cfg, darsia, shape, dim):
    grid = darsia.Grid(shape, [0.5, 0.25, 2.0][:dim])
    nc = int(np.prod(shape))
    nfa = [O.num_faces_axis(d, shape) for d in range(dim)]
    nf = sum(nfa)
    S.claim("large_counts_follow_from_shape", int(grid.num_cells) == nc and int(grid.num_faces) == nf)
    conn = np.asarray(grid.connectivity).astype(np.int64)
    rev = np.asarray(grid.reverse_connectivity).astype(np.int64)
    ok_pairs, ok_inv = True, True
    stride = 1
    for d in range(dim):
        faces = np.asarray(grid.faces[d]).ravel("F").astype(np.int64)
        c = conn[faces]
        ok_pairs = ok_pairs and bool(np.all(c[:, 0] >= 0) and np.all(c[:, 1] < nc) and np.all(c[:, 1] - c[:, 0] == stride))
        if len(faces):
            # cell -> face lookup is the inverse: the upper face of the lower cell and the lower face of the upper cell
            ok_inv = ok_inv and bool(np.array_equal(rev[d, c[:, 0], 1], faces) and np.array_equal(rev[d, c[:, 1], 0], faces))
        r = rev[d]
        ok_inv = ok_inv and bool(np.all((r >= -1) & (r < nf)) and int(np.sum(r >= 0)) == 2 * len(faces))
        stride *= shape[d]
    S.claim("large_each_face_joins_increasing_neighbours_along_its_axis", ok_pairs)
    S.claim("large_cell_to_face_lookup_is_the_inverse_with_no_face_only_on_the_boundary", ok_inv)
    allf = np.sort(np.concatenate([np.asarray(grid.faces[d]).ravel() for d in range(dim)])) if nf else np.zeros(0, dtype=int)
    S.claim("large_every_face_numbered_exactly_once", bool(np.array_equal(allf, np.arange(nf))))


def body_image(cfg, darsia, shape, dim):
    dims = [S.real(f"d{k}", lo="1/10000", hi=10000) for k in range(dim)]
    data = np.zeros(shape, dtype=object if S.instrumented() else float)
    img = darsia.Image(data, dimensions=list(dims), space_dim=dim, scalar=True)
    grid = darsia.generate_grid(img)
    S.claim("image_grid_shape", tuple(int(n) for n in grid.shape) == shape)
    S.claim("image_grid_voxel_size", S.eq([grid.voxel_size[k] for k in range(dim)], [dims[k] / shape[k] for k in range(dim)]))
    S.observe("voxel_size", [grid.voxel_size[k] for k in range(dim)])
    S.claim("image_grid_counts", int(grid.num_cells) == int(np.prod(shape)) and int(grid.num_faces) == sum(O.num_faces_axis(d, shape) for d in range(dim)))
