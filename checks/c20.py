"""C20 -- matrix and Cartesian axis conventions are coherent in every dimension.

Real code executed: to_matrix_indexing, to_cartesian_indexing, interpret_indexing,
matrixToCartesianIndexing, cartesianToMatrixIndexing, Image.slice, AxisReduction /
reduce_axis, CoordinateSystem.  The tables are finite (enumerated); the data-selection
claims (slice / reduce by name vs by index, array re-indexing) are decided by z3 over
symbolic voxel values, dimensions, origin and cut coordinate.
"""
import itertools

import numpy as np

from symx import api as S
from . import oracles as O

PROPERTY = "C20"
OPTIONS = dict(validate=10, query_timeout_ms=60000)
STUBS = []
OUTSIDE = ["1-D: to_matrix_indexing / to_cartesian_indexing are only defined for 2-D and 3-D", "cartesianToMatrixIndexing is documented as 2-D only, so the inverse claim is 2-D"]
ASSUMPTIONS = ["reference convention = interpret_indexing / the coordinate system, pinned by the repo's tests: 2-D i->-y, j->+x; 3-D i->-z, j->+x, k->-y"]


def bounds(tier):
    return "dims 1..3, every axis, str and int axis forms, both directions; slice / reduce on shapes 2x3, 3x2, 2x3x2 (quick) plus 3x4x3, 1x2x3 (thorough) with symbolic voxel values, dimensions, origin and cut position; layout helpers on the same shapes"


def configs(tier):
    out = [dict(kind="tables", dim=d) for d in (1, 2, 3)]
    shapes2 = [[2, 3], [3, 2]] + ([[1, 4], [4, 4], [5, 3], [1, 1]] if tier != "quick" else [])
    shapes3 = [[2, 3, 2]] + ([[3, 4, 3], [1, 2, 3], [2, 2, 4], [3, 1, 1]] if tier != "quick" else [])
    for shape in shapes2 + shapes3:
        dim = len(shape)
        for a in range(dim):
            for mode in ("sum", "average"):
                out.append(dict(kind="reduce", shape=shape, axis=a, mode=mode))
            out.append(dict(kind="slice", shape=shape, axis=a))
        out.append(dict(kind="layout", shape=shape))
    out.append(dict(kind="layout", shape=[4]))
    # arrays with trailing (colour / time) axes keep them in place
    for shape, tr in (([2, 3], [3]), ([3, 3], [2]), ([3, 2], [2, 2]), ([2, 3, 2], [2]), ([3, 3, 3], [3])) if tier == "quick" else (([2, 3], [3]), ([3, 3], [2]), ([3, 3], [3]), ([1, 3], [2]), ([3, 2], [2, 2]), ([2, 2], [2, 2]), ([2, 3, 2], [2]), ([3, 3, 3], [3]), ([2, 2, 2], [2, 2]), ([4], [3])):
        out.append(dict(kind="layout", shape=shape, trailing=tr))
    return out


def _img(darsia, shape, vector=False):
    dim = len(shape)
    a = S.array("a", tuple(shape) + ((2,) if vector else ()), lo=-10, hi=10)
    dims = [S.real(f"d{m}", lo="1/100", hi=100) for m in range(dim)]
    org = [S.real(f"o{k}", lo=-10, hi=10) for k in range(dim)]
    return darsia.Image(a.copy(), dimensions=list(dims), origin=list(org), space_dim=dim, scalar=not vector), a, dims, org


def body(cfg):
    import darsia

    k = cfg["kind"]
    if k == "tables":
        return body_tables(cfg, darsia)
    shape = tuple(cfg["shape"])
    dim = len(shape)
    orient = O.ORIENT[dim]
    if k == "reduce":
        img, a, dims, org = _img(darsia, shape)
        m = cfg["axis"]
        cart = "xyz"[orient[m][0]]
        by_index = darsia.reduce_axis(img, m, mode=cfg["mode"])
        by_name = darsia.reduce_axis(img, cart, mode=cfg["mode"])
        exp = np.sum(a, axis=m)
        if cfg["mode"] == "average":
            exp = exp / shape[m]
        S.claim("reduction_by_index_is_the_array_reduction", S.eq(by_index.img, exp))
        S.claim("reduction_by_name_selects_the_same_data", S.and_(tuple(by_name.img.shape) == tuple(by_index.img.shape), S.eq(by_name.img, by_index.img)))
        S.claim("reduction_by_name_same_metadata", S.and_(S.eq(list(by_name.dimensions), list(by_index.dimensions)), S.eq(list(by_name.origin), list(by_index.origin)), by_name.space_dim == dim - 1 == by_index.space_dim, by_name.indexing == by_index.indexing))
        S.claim("retained_extents", S.eq(list(by_index.dimensions), [dims[e] for e in range(dim) if e != m]))
        red = darsia.AxisReduction(cart, dim)
        red2 = darsia.AxisReduction(m, dim)
        S.claim("axis_reduction_index_and_axis_fields_agree", red.index == m == red2.index and red.axis == orient[m][0] == red2.axis)
        S.observe("reduced", by_index.img)
        return
    if k == "slice":
        img, a, dims, org = _img(darsia, shape)
        m = cfg["axis"]
        ca, sg = orient[m]
        v = S.integer("v", 0, shape[m] - 1)
        t = S.real("t", lo="1/100", hi="99/100")
        h = dims[m] / shape[m]
        cut = org[ca] + sg * (v + t) * h  # a coordinate strictly inside voxel layer v
        by_voxel = img.slice(v, m)
        by_coord = img.slice(cut, "xyz"[ca])
        if S.symbolic():
            from symx.core import ENGINE, term

            cv = ENGINE.concretize_int(term(v))
        else:
            cv = int(S.tofloat(v))
        exp = np.take(a, cv, axis=m)
        S.claim("slice_by_voxel_index_is_the_array_slice", S.and_(tuple(by_voxel.img.shape) == tuple(exp.shape), S.eq(by_voxel.img, exp)))
        S.claim("slice_by_cartesian_name_selects_the_same_data", S.and_(tuple(by_coord.img.shape) == tuple(exp.shape), S.eq(by_coord.img, exp)))
        S.claim("slice_metadata_agree", S.and_(S.eq(list(by_coord.dimensions), list(by_voxel.dimensions)), S.eq(list(by_coord.origin), list(by_voxel.origin)), by_coord.space_dim == dim - 1))
        S.observe("slice", by_voxel.img)
        # the origin of the SAME image object changes afterwards (reset_origin / assignment): Cartesian
        # addressing has to follow the origin the image has now
        img.reset_origin()
        org2 = list(img.origin)
        cut2 = org2[ca] + sg * (v + t) * h
        S.claim("after_reset_origin_cartesian_slice_follows_the_new_origin", S.and_(S.eq(img.slice(cut2, "xyz"[ca]).img, exp), S.eq(img.slice(v, m).img, exp)))
        S.claim("after_reset_origin_voxel_zero_sits_at_the_new_origin", S.eq(list(img.coordinatesystem.coordinate(np.zeros(dim, dtype=int))), org2))
        new_org = [S.real(f"n{e}", lo=-5, hi=5) for e in range(dim)]
        img.origin = darsia.Coordinate(np.array(new_org, dtype=object if S.instrumented() else float)) if S.instrumented() else darsia.Coordinate(new_org)
        cut3 = new_org[ca] + sg * (v + t) * h
        S.claim("after_assigning_an_origin_cartesian_slice_follows_it", S.and_(S.eq(img.slice(cut3, "xyz"[ca]).img, exp), S.eq(img.slice(v, m).img, exp)))
        return
    if k == "layout":
        tr = tuple(cfg.get("trailing", ()))
        a = S.array("a", tuple(shape) + tr, lo=-10, hi=10)
        cartd = darsia.matrixToCartesianIndexing(a.copy(), dim)
        want_shape = [0] * dim
        for m in range(dim):
            want_shape[orient[m][0]] = shape[m]
        want_shape = tuple(want_shape) + tr
        S.claim("cartesian_layout_shape", tuple(cartd.shape) == tuple(want_shape))
        if tuple(cartd.shape) == tuple(want_shape):
            ok = []
            for vox in itertools.product(*[range(n) for n in shape]):
                ci = [0] * dim
                for m in range(dim):
                    ax, sg = orient[m]
                    ci[ax] = vox[m] if sg > 0 else shape[m] - 1 - vox[m]
                ok.append(S.eq(cartd[tuple(ci)], a[vox]))
            S.claim("each_voxel_lands_in_the_cartesian_cell_of_the_coordinate_system", S.and_(ok))
        if dim == 2:
            back = darsia.cartesianToMatrixIndexing(cartd)
            S.claim("matrix_cartesian_matrix_is_identity", S.and_(tuple(back.shape) == tuple(a.shape), S.eq(back, a) if tuple(back.shape) == tuple(a.shape) else False))
            c2 = S.array("c", (shape[1], shape[0]) + tr, lo=-10, hi=10)
            S.claim("cartesian_matrix_cartesian_is_identity", S.eq(darsia.matrixToCartesianIndexing(darsia.cartesianToMatrixIndexing(c2.copy()), 2), c2))
        S.observe("cart", cartd)
        return


def body_tables(cfg, darsia):
    dim = cfg["dim"]
    cart, mat = "xyz"[:dim], "ijk"[:dim]
    orient = O.ORIENT[dim]
    ii = darsia.interpret_indexing
    # interpret_indexing: matrix axis m <-> cartesian axis, reversed flag, both directions, vs the oracle
    for m in range(dim):
        ax, sg = orient[m]
        S.claim(f"interpret_matrix_axis_{mat[m]}_in_cartesian", ii(mat[m], cart) == (ax, sg < 0))
        S.claim(f"interpret_cartesian_axis_{cart[ax]}_in_matrix", ii(cart[ax], mat) == (m, sg < 0))
        S.claim(f"interpret_identity_{mat[m]}", ii(mat[m], mat) == (m, False) and ii(cart[m], cart) == (m, False))
    S.claim("interpret_is_a_bijection", sorted(ii(x, mat)[0] for x in cart) == list(range(dim)) and sorted(ii(x, cart)[0] for x in mat) == list(range(dim)))
    if dim == 1:
        return
    tm, tc = darsia.to_matrix_indexing, darsia.to_cartesian_indexing
    for m in range(dim):
        ax, sg = orient[m]
        for form in ("str", "int"):
            a_in = cart[ax] if form == "str" else ax
            m_in = mat[m] if form == "str" else m
            S.claim(f"to_matrix_agrees_with_interpret_{cart[ax]}_{form}", tm(a_in, cart) == mat[m])
            S.claim(f"to_cartesian_agrees_with_interpret_{mat[m]}_{form}", tc(m_in, mat) == cart[ax])
            S.claim(f"there_and_back_{cart[ax]}_{form}", tc(tm(a_in, cart), mat) == cart[ax])
            S.claim(f"back_and_there_{mat[m]}_{form}", tm(tc(m_in, mat), cart) == mat[m])
    # the coordinate system agrees: one voxel step along matrix axis m moves Cartesian axis to_cartesian(m)
    shape = (2, 3, 2)[:dim]
    img = darsia.Image(np.zeros(shape), dimensions=[1.0, 2.0, 4.0][:dim], space_dim=dim, scalar=True)
    cs = img.coordinatesystem
    for m in range(dim):
        e = [0] * dim
        e[m] = 1
        step = np.asarray(cs.coordinate(e)) - np.asarray(cs.coordinate([0] * dim))
        moved = [k for k in range(dim) if abs(float(step[k])) > 0]
        S.claim(f"coordinate_system_moves_axis_of_to_cartesian_{mat[m]}", moved == [cart.index(tc(mat[m], mat))] and (float(step[moved[0]]) < 0) == ii(mat[m], cart)[1])
