"""C11 -- resampling and axis reduction conserve integrals.

Real code executed symbolically: uniform_refinement, AxisReduction.__init__/__call__,
reduce_axis, extrude_along_axis, Resize.__init__/__call__ (factor arithmetic, channel
handling, conservative rescaling), superpose (canvas / corner arithmetic), with
Geometry.integrate as measuring stick.
Symbolic: pixel data, physical dimensions, origin, extrusion height.
"""
import itertools

import numpy as np

from symx import api as S

PROPERTY = "C11"
OPTIONS = dict(validate=14, query_timeout_ms=60000, obs_rtol=1e-6)
STUBS = [
    "cv2.resize(INTER_AREA) on symbolic arrays = exact area resampling (block mean when shrinking, replication for integer zoom), validated against real cv2 on constants",
    "cv2.split / cv2.merge = channel split / stack",
    "cv2.warpPerspective with an integer-translation matrix = zero-filled shift (grid-aligned superposition only)",
]
OUTSIDE = ["non-integer zoom, other interpolation modes", "superposition at non-aligned offsets (cv2 interpolation)", "float32 rounding"]
ASSUMPTIONS = ["documented counterpart of the integral: conservative resize preserves the SUM of voxel values; sum-reduction: reduced integral = full integral / voxel size of the removed axis; average-reduction: reduced integral x removed extent = full integral; extrusion: integral x height"]


def bounds(tier):
    q = tier == "quick"
    return "refinement levels %s on 2-D shapes %s and 3-D 2x2x2; reduction of every axis (by index and Cartesian name, sum / average) on 2x3, 3x2%s and 2x3x2; extrusion with 1..3 layers; conservative / plain area resize for every target shape that shrinks both extents or zooms by integers from %s; superposition of 1..3 grid-aligned images" % (
        "-2..2" if q else "-3..3", "2x4, 4x2, 3x5, 4x4" if q else "up to 8x8 incl. 6x4, 5x3, 7x2", "" if q else ", 4x5, 7x7", "4x6, 2x3, 3x3" if q else "4x6, 2x3, 3x3, 6x6, 5x4")


def configs(tier):
    out = []
    q = tier == "quick"
    levels = range(-2, 3) if q else range(-3, 4)
    shapes = [[2, 4], [4, 2], [3, 5], [4, 4]] + ([] if q else [[8, 8], [6, 4], [5, 3], [7, 2], [1, 4]])
    for shape in shapes + [[2, 2, 2]] + ([] if q else [[4, 2, 2], [3, 2, 1]]):
        for L in levels:
            if L < -1 and (max(shape) > 4 and not all(n % 4 == 0 for n in shape)) and q:
                continue
            ext = list(shape)
            odd = False
            for _ in range(abs(L) if L < 0 else 0):
                odd = odd or any(n % 2 for n in ext)
                ext = [(n + 1) // 2 for n in ext]
            for payload in (("scalar", "vector", "series") if shape in ([2, 4], [2, 2, 2]) else ("scalar",)):
                out.append(dict(kind="refine", shape=shape, level=L, payload=payload, odd=odd))
    for shape in [[2, 3], [3, 2], [2, 3, 2]] + ([] if q else [[4, 5], [7, 7], [3, 3, 3]]):
        for ax in range(len(shape)):
            for mode in ("sum", "average"):
                for by in ("index", "name"):
                    for payload in (("scalar", "series") if shape == [2, 3] else ("scalar",)):
                        out.append(dict(kind="reduce", shape=shape, axis=ax, mode=mode, by=by, payload=payload))
    if q:
        for L in (-3, 3):
            out.append(dict(kind="refine", shape=[1, 2] if L > 0 else [8, 8], level=L, payload="scalar", odd=False))
    for shape in ([2, 3], [1, 2]):
        for num in (1, 2, 3):
            out.append(dict(kind="extrude", shape=shape, num=num))
    srcs = [[4, 6], [2, 3], [3, 3]] + ([] if q else [[6, 6], [5, 4]])
    for src in srcs:
        targets = set()
        for a in range(1, src[0] + 1):
            for b in range(1, src[1] + 1):
                targets.add((a, b))
        for fa, fb in itertools.product((1, 2, 3), repeat=2):
            if src[0] * fa <= 9 and src[1] * fb <= 9:
                targets.add((src[0] * fa, src[1] * fb))
        for t in sorted(targets):
            if q and src == [4, 6] and (t[0] not in (1, 2, 3, 4, 8) or t[1] not in (1, 4, 5, 6)):
                continue
            for cons in (True, False):
                out.append(dict(kind="resize", src=src, dst=list(t), conservative=cons, payload="scalar"))
        out.append(dict(kind="resize", src=src, dst=[max(1, src[0] // 2), src[1]], conservative=True, payload="vector"))
        out.append(dict(kind="resize", src=src, dst=[src[0], max(1, src[1] // 2)], conservative=True, payload="series"))
    for n in (1, 2, 3) if q else (1, 2, 3, 4):
        for layout in ("shared", "offsets", "shapes"):
            out.append(dict(kind="superpose", n=n, layout=layout, series=False))
    out.append(dict(kind="superpose", n=2, layout="offsets", series=True))
    return out


def install_stubs():
    import cv2 as real_cv2

    import darsia.image.subregions as sub
    import darsia.measure.integration as integ
    import darsia.restoration.resize as rz
    from symx import npx
    from symx.core import Unsupported
    from . import stubs

    base = stubs.make_cv2(real_cv2)

    class CV2(type(base)):
        @staticmethod
        def split(m):
            if npx.has_sym(m):
                return tuple(m[:, :, c] for c in range(m.shape[2]))
            return real_cv2.split(m)

        @staticmethod
        def merge(chs):
            if any(npx.has_sym(c) for c in chs):
                return np.stack(list(chs), axis=-1)
            return real_cv2.merge(chs)

        @staticmethod
        def warpPerspective(src, P, dsize, **k):
            if not npx.has_sym(src):
                return real_cv2.warpPerspective(src, P, dsize, **k)
            P = np.asarray(P, dtype=float)
            P = P / P[2, 2]
            tx, ty = P[0, 2], P[1, 2]
            ok = np.allclose(P[:2, :2], np.eye(2), atol=1e-6) and np.allclose(P[2, :2], 0, atol=1e-6) and abs(tx - round(tx)) < 1e-6 and abs(ty - round(ty)) < 1e-6
            if not ok:
                raise ValueError("cv2.warpPerspective stub: not a whole-pixel translation")
            tx, ty = int(round(tx)), int(round(ty))
            w, h = int(dsize[0]), int(dsize[1])
            out = np.empty((h, w), dtype=object)
            out[...] = 0.0
            for y in range(h):
                for x in range(w):
                    sy, sx = y - ty, x - tx
                    if 0 <= sy < src.shape[0] and 0 <= sx < src.shape[1]:
                        out[y, x] = src[sy, sx]
            return out

    proxy = CV2()
    rz.cv2 = proxy
    integ.cv2 = proxy
    sub.cv2 = proxy


def _dt():
    return object if S.instrumented() else float


def _image(darsia, shape, payload, name="a", dims=None, org=None, lo=-10, hi=10):
    dim = len(shape)
    tail = {"scalar": (), "vector": (2,), "series": (2,)}[payload]
    a = S.array(name, tuple(shape) + tail, lo=lo, hi=hi)
    dims = dims if dims is not None else [S.real(f"d{m}", lo="1/100", hi=100) for m in range(dim)]
    kw = dict(dimensions=list(dims), space_dim=dim, scalar=(payload != "vector"), series=(payload == "series"))
    if org is not None:
        kw["origin"] = list(org)
    if payload == "series":
        kw["time"] = [0.0, 1.0]
    return darsia.Image(a.copy(), **kw), a, dims


def _integral(darsia, img):
    return darsia.Geometry(**img.shape_metadata()).integrate(img)


def body(cfg):
    import darsia

    S.set_rtol(1e-6)  # real cv2 area resampling carries float32 coefficients (~1e-7 relative)
    k = cfg["kind"]
    if k == "refine":
        shape = tuple(cfg["shape"])
        dim = len(shape)
        img, a, dims = _image(darsia, shape, cfg["payload"])
        L = cfg["level"]
        out = darsia.uniform_refinement(img, L)
        exp_shape = list(shape)
        for _ in range(abs(L)):
            exp_shape = [n * 2 for n in exp_shape] if L > 0 else [(n + 1) // 2 for n in exp_shape]
        S.claim("refined_shape", list(out.img.shape[:dim]) == exp_shape)
        S.claim("refinement_keeps_physical_extent", S.and_(S.eq(list(out.dimensions), dims), S.eq(list(out.origin), list(img.origin))))
        S.claim("coarsening_conserves_integral" if L < 0 else "refinement_conserves_integral", S.eq(_integral(darsia, out), _integral(darsia, img)))
        if L > 0:
            back = darsia.uniform_refinement(out, -L)
            S.claim("coarsening_after_refinement_is_identity", S.and_(tuple(back.img.shape) == tuple(a.shape), S.eq(back.img, a) if tuple(back.img.shape) == tuple(a.shape) else False))
            rep = a
            for m in range(dim):
                rep = np.repeat(rep, 2**L, axis=m)
            S.claim("refinement_repeats_voxels", S.eq(out.img, rep) if tuple(out.img.shape) == tuple(rep.shape) else False)
        S.claim("input_untouched", S.eq(img.img, a))
        S.observe("out", out.img)
        return
    if k == "reduce":
        from . import oracles as O

        shape = tuple(cfg["shape"])
        dim = len(shape)
        img, a, dims = _image(darsia, shape, cfg["payload"])
        m = cfg["axis"]
        axis = m if cfg["by"] == "index" else "xyz"[O.ORIENT[dim][m][0]]
        red = darsia.reduce_axis(img, axis, mode=cfg["mode"])
        s = np.sum(a, axis=m)
        S.claim("reduction_is_array_sum_or_mean_along_axis", S.eq(red.img, s if cfg["mode"] == "sum" else s / shape[m]))
        S.claim("retained_extents_kept", S.and_(S.eq(list(red.dimensions), [dims[e] for e in range(dim) if e != m]), red.space_dim == dim - 1))
        full = _integral(darsia, img)
        part = _integral(darsia, red)
        h = dims[m] / shape[m]
        if cfg["mode"] == "sum":
            S.claim("sum_reduction_integral_is_full_integral_over_voxel_size", S.eq(part * h, full))
        else:
            S.claim("average_reduction_integral_times_extent_is_full_integral", S.eq(part * dims[m], full))
        S.claim("input_untouched", S.eq(img.img, a))
        S.observe("red", red.img)
        # an image that is NOT anchored at the default origin: the retained axes keep their physical position,
        # whether the axis is addressed by matrix index or by Cartesian name
        org = [S.real(f"o{e}", lo=-5, hi=5) for e in range(dim)]
        img2, _, _ = _image(darsia, shape, cfg["payload"], name="a", dims=dims, org=org)
        ca = O.ORIENT[dim][m][0]
        r_idx = darsia.reduce_axis(img2, m, mode=cfg["mode"])
        r_nam = darsia.reduce_axis(img2, "xyz"[ca], mode=cfg["mode"])
        # (where the lower-dimensional image puts its origin is a convention of its own; what must hold is that the
        #  two ways of addressing the axis place the result identically and keep the retained extents)
        S.claim("reduced_image_is_placed_identically_by_index_and_by_name", S.and_(S.eq(list(r_idx.origin), list(r_nam.origin)), S.eq(list(r_idx.dimensions), list(r_nam.dimensions)), S.eq(list(r_idx.dimensions), [dims[e] for e in range(dim) if e != m]), S.eq(r_idx.img, r_nam.img)))
        return
    if k == "extrude":
        shape = tuple(cfg["shape"])
        img, a, dims = _image(darsia, shape, "scalar")
        height = S.real("height", lo="1/100", hi=100)
        ex = darsia.extrude_along_axis(img, height, cfg["num"])
        S.claim("extrusion_shape_and_extents", S.and_(tuple(ex.img.shape) == (cfg["num"],) + shape, ex.space_dim == 3, S.eq(list(ex.dimensions), [height] + list(dims))))
        S.claim("extrusion_replicates_layers", S.and_([S.eq(ex.img[i], a) for i in range(cfg["num"])]))
        S.claim("extruded_integral_is_flat_integral_times_height", S.eq(_integral(darsia, ex), _integral(darsia, img) * height))
        S.claim("input_untouched", S.and_(S.eq(img.img, a), S.eq(list(img.dimensions), dims), img.space_dim == 2))
        return
    if k == "resize":
        src, dst = tuple(cfg["src"]), tuple(cfg["dst"])
        img, a, dims = _image(darsia, src, cfg["payload"])
        rs = darsia.Resize(shape=dst, interpolation="inter_area", **{"resize conservative": cfg["conservative"]})
        out = rs(img)
        tail = a.shape[2:]
        S.claim("resized_shape_and_kept_extent", S.and_(tuple(out.img.shape) == dst + tail, S.eq(list(out.dimensions), dims), type(out) is type(img)))
        tot_in = np.sum(a, axis=(0, 1))
        tot_out = np.sum(out.img, axis=(0, 1))
        n_in, n_out = src[0] * src[1], dst[0] * dst[1]
        if cfg["conservative"]:
            S.claim("conservative_resize_preserves_the_sum", S.eq(tot_out, tot_in))
        else:
            S.claim("area_resize_preserves_the_mean", S.eq(tot_out * n_in, tot_in * n_out))
            S.claim("area_resize_preserves_the_physical_integral", S.eq(_integral(darsia, out), _integral(darsia, img)))
        arr_out = rs(a.copy())
        S.claim("array_input_gives_the_same_pixels", S.eq(arr_out, out.img))
        if cfg["conservative"] and cfg["payload"] == "scalar":
            # the SAME Resize object applied to a second image with another voxel count
            src2 = (dst[0] * 2, dst[1]) if (dst[0] * 2, dst[1]) != src else (dst[0], dst[1] * 2)
            if src2[0] * src2[1] <= 36:
                b = S.array("b2", src2, lo=-10, hi=10)
                out2 = rs(b.copy())
                S.claim("reused_resize_object_preserves_the_sum_of_a_second_image", S.and_(tuple(out2.shape) == dst, S.eq(np.sum(out2, axis=(0, 1)), np.sum(b, axis=(0, 1)))))
        S.claim("input_untouched", S.eq(img.img, a))
        S.observe("out", out.img)
        return
    if k == "superpose":
        n = cfg["n"]
        # concrete, exactly representable geometry (voxel size 1/4 x 1/2); pixel data symbolic
        hy, hx = 0.25, 0.5
        layouts = {
            "shared": [((3, 4), (0, 0))] * n,
            "offsets": [((3, 4), (0, 0)), ((3, 4), (2, 3)), ((3, 4), (1, -2)), ((3, 4), (-1, 1))][:n],
            "shapes": [((4, 6), (0, 0)), ((2, 3), (1, 2)), ((3, 2), (0, 4)), ((1, 1), (3, 5))][:n],
        }[cfg["layout"]]
        T = 2 if cfg["series"] else 0
        imgs, arrs = [], []
        for i, (shp, (oi, oj)) in enumerate(layouts):
            a = S.array(f"a{i}", shp + ((T,) if T else ()), lo=-10, hi=10)
            # voxel (0,0) of image i sits at canvas-voxel (oi, oj):  x = oj*hx, y(top) = -oi*hy
            org = [oj * hx, 10.0 - oi * hy]
            kw = dict(dimensions=[shp[0] * hy, shp[1] * hx], origin=org, scalar=True, series=bool(T))
            if T:
                kw["time"] = [0.0, 1.0]
            imgs.append(darsia.Image(a.copy(), **kw))
            arrs.append(a)
        try:
            res = darsia.superpose(imgs)
        except Exception as e:  # noqa: BLE001
            if "whole-pixel translation" in str(e):
                # grid-aligned images must be placed by whole-pixel translations; anything else cannot add up
                S.claim("superposition_equals_adding_the_arrays_on_the_common_canvas", False)
                return
            raise
        i0 = min(o[0] for _, o in layouts)
        j0 = min(o[1] for _, o in layouts)
        i1 = max(o[0] + s[0] for s, o in layouts)
        j1 = max(o[1] + s[1] for s, o in layouts)
        canvas = np.zeros((i1 - i0, j1 - j0) + ((T,) if T else ()), dtype=_dt())
        for a, (shp, (oi, oj)) in zip(arrs, layouts):
            canvas[oi - i0 : oi - i0 + shp[0], oj - j0 : oj - j0 + shp[1]] += a
        same = tuple(res.img.shape) == tuple(canvas.shape)
        S.claim("superposition_equals_adding_the_arrays_on_the_common_canvas", S.and_(same, S.eq(res.img, canvas) if same else False))
        S.claim("superposition_canvas_extent", S.and_(S.eq(list(res.dimensions), [(i1 - i0) * hy, (j1 - j0) * hx]), S.eq(list(res.origin), [j0 * hx, 10.0 - i0 * hy])))
        tot = 0
        for im in imgs:
            tot = tot + _integral(darsia, im)
        S.claim("superposition_conserves_the_integral", S.eq(_integral(darsia, res), tot))
        S.claim("inputs_untouched", S.and_([S.eq(im.img, a) for im, a in zip(imgs, arrs)]))
        S.observe("res", res.img)
        return
