"""C01 -- voxel and physical coordinates convert consistently for every image geometry.

Real code executed symbolically: Image.__init__ (default origin), voxel_size,
opposite_corner, CoordinateSystem.__init__/coordinate/voxel/coordinate_vector,
interpret_indexing, the typed points of utils/point.py.
Symbolic: physical dimensions, origin, the voxel index (an UNBOUNDED integer: the halo is
every out-of-range index), the in-voxel offset t in (0,1).
"""
import itertools

import numpy as np

from symx import api as S
from . import oracles as O

PROPERTY = "C01"
OPTIONS = dict(validate=10, query_timeout_ms=60000, path_wall_s=4000)
STUBS = []
OUTSIDE = ["IEEE rounding for points other than voxel centres (a point within one ulp of a voxel boundary can land in the neighbour: inherent to doubles)", "plotting"]
ASSUMPTIONS = ["orientation convention pinned by the repo's own tests: 1-D i->+x; 2-D i->-y, j->+x; 3-D i->-z, j->+x, k->-y"]

SHAPES_Q = {1: [(1,), (3,)], 2: [(1, 1), (2, 3), (3, 1)], 3: [(1, 1, 1), (2, 3, 2), (1, 2, 3)]}
SHAPES_T = {
    1: [(n,) for n in range(1, 7)],
    2: [(1, 1), (1, 4), (2, 3), (3, 1), (4, 4), (5, 2), (6, 6), (2, 6)],
    3: [(1, 1, 1), (2, 3, 2), (1, 2, 3), (3, 1, 2), (4, 2, 1), (3, 3, 3), (2, 5, 3), (6, 2, 2)],
}


def bounds(tier):
    sh = SHAPES_Q if tier == "quick" else SHAPES_T
    return f"space_dim 1..3, shapes {sh}, default and user origin, scalar/vector/series payloads; dimensions in [1e-4, 1e4], origin within 1e6 voxel sizes, voxel index an unbounded integer, in-voxel offset in (0,1); call forms list/tuple/ndarray/typed point, single and batch of 2"


def configs(tier):
    sh = SHAPES_Q if tier == "quick" else SHAPES_T
    out = []
    for dim in (1, 2, 3):
        for k, shape in enumerate(sh[dim]):
            for origin in ("default", "user"):
                kinds = ["scalar", "vector", "series"] if (k == 1 or tier == "thorough") else ["scalar"]
                for kind in kinds:
                    out.append(dict(dim=dim, shape=list(shape), origin=origin, kind=kind))
    return out + fp_configs(tier)


def fp_configs(tier):
    out = []
    q = tier == "quick"
    for n in ((1, 3) if q else (1, 2, 3, 4, 5, 6)):
        vs = sorted({-2, -1, 0, n - 1, n, n + 1}) if q else list(range(-2, n + 2))
        for v in vs:
            for origin in (("default",) if q else ("default", "user")):
                out.append(dict(kind="fp", dim=1, shape=[n], v=[v], origin=origin, fp_timeout_ms=900000))
    for shape, vv in (((2, 3), [(-1, 3), (1, 0), (2, -2)]),) if q else (((2, 3), [(-1, 3), (1, 0), (2, -2), (0, 2)]), ((5, 6), [(-2, 7), (4, 5), (5, -1)])):
        for v in vv:
            for origin in (("default",) if q else ("default", "user")):
                out.append(dict(kind="fp", dim=2, shape=list(shape), v=list(v), origin=origin, fp_timeout_ms=900000))
    return out


def body_fp(cfg, darsia):
    """bit-precise: the centre of voxel v, converted to a coordinate and back, is voxel v -- in IEEE doubles"""
    dim = cfg["dim"]
    shape = tuple(cfg["shape"])
    orient = O.ORIENT[dim]
    dims = [S.fp(f"d{m}", 1e-4, 1e4) for m in range(dim)]
    kw = dict(dimensions=list(dims), space_dim=dim, scalar=True)
    if cfg["origin"] == "user":
        org = [None] * dim
        for m in range(dim):
            a, _sg = orient[m]
            o = S.fp(f"o{a}", -1e10, 1e10, default=lambda rng: rng.uniform(-1, 1))
            h = dims[m] / shape[m]
            S.assume(S.and_(S.le(o, 1e6 * h), S.le(-1e6 * h, o)), check=False)
            org[a] = o
        kw["origin"] = list(org)
    img = darsia.Image(np.zeros(shape), **kw)
    cs = img.coordinatesystem
    v = cfg["v"]
    centre = darsia.VoxelCenter(list(v))
    back = centre.to_coordinate(cs).to_voxel(cs)
    for m in range(dim):
        S.claim(f"fp_voxel_centre_round_trip_axis{m}", S.eq(back[m], v[m]))
    direct = cs.voxel(cs.coordinate(np.array([x + 0.5 for x in v])))
    S.claim("fp_voxel_centre_round_trip_untyped", S.eq(list(direct), v))


def make_image(darsia, cfg, dims, origin):
    shape = tuple(cfg["shape"])
    dim = cfg["dim"]
    kw = dict(dimensions=list(dims), space_dim=dim)
    if origin is not None:
        kw["origin"] = list(origin)
    if cfg["kind"] == "scalar":
        data = np.zeros(shape)
        kw["scalar"] = True
    elif cfg["kind"] == "vector":
        data = np.zeros(shape + (3,))
        kw["scalar"] = False
    else:
        data = np.zeros(shape + (2,))
        kw.update(scalar=True, series=True, time=[0.0, 1.0])
    return darsia.Image(data, **kw)


def body(cfg):
    import darsia

    if cfg.get("kind") == "fp":
        return body_fp(cfg, darsia)
    dim = cfg["dim"]
    shape = tuple(cfg["shape"])
    orient = O.ORIENT[dim]
    dims = [S.real(f"d{m}", lo="1/10000", hi=10000) for m in range(dim)]
    h = [dims[m] / shape[m] for m in range(dim)]
    if cfg["origin"] == "user":
        org = [None] * dim
        for m in range(dim):
            a, _sg = orient[m]
            o = S.real(f"o{a}", lo=-(10**10), hi=10**10, default=lambda rng: round(rng.uniform(-100, 100) * 8) / 8)
            S.assume(S.and_(S.le(o, 10**6 * h[m]), S.le(-(10**6) * h[m], o)), check=False)
            org[a] = o
    else:
        org = None
    img = make_image(darsia, cfg, dims, org)
    cs = img.coordinatesystem
    if org is None:
        exp_org = [0] * dim
        for m in range(dim):
            a, sg = orient[m]
            exp_org[a] = dims[m] if sg < 0 else 0
    else:
        exp_org = org
    S.observe("origin", list(img.origin))
    S.observe("voxel_size", img.voxel_size)
    S.claim("origin_as_documented", S.eq(list(img.origin), exp_org))
    S.claim("voxel_size_is_dimension_over_extent", S.eq(img.voxel_size, h))
    S.claim("voxel_zero_maps_to_origin", S.and_(
        S.eq(list(cs.coordinate([0] * dim)), exp_org),
        S.eq(list(cs.coordinate(np.zeros(dim, dtype=int))), exp_org),
        S.eq(list(cs.coordinate(tuple([0] * dim))), exp_org),
    ))
    opp = img.opposite_corner
    disp = [0] * dim
    for m in range(dim):
        a, sg = orient[m]
        disp[a] = sg * dims[m]
    S.claim("opposite_corner_displaced_by_dimensions", S.eq([opp[a] - exp_org[a] for a in range(dim)], disp))

    # ---- arbitrary (also out-of-range) voxel index
    # (seeded constant runs use moderate indices: in doubles, differences of coordinates of far-away
    #  voxels lose digits, which is not what the const-versus-plain comparison is about)
    v = [S.integer(f"v{m}", -(10**7), 10**7, default=lambda rng: rng.randint(-40, 40)) for m in range(dim)]
    # the coordinate system is KEPT by the caller while another image (other shape, other extents) is set up
    # and its coordinate system is used: the kept one must go on describing its own image
    other = darsia.Image(np.zeros(tuple(n + 1 for n in shape)), dimensions=[S.real(f"e{m}", lo="1/10000", hi=10000) for m in range(dim)], space_dim=dim, scalar=True)
    other.coordinatesystem.coordinate([1] * dim)
    cv = cs.coordinate(list(v))
    exp_cv = [0] * dim
    for m in range(dim):
        a, sg = orient[m]
        exp_cv[a] = exp_org[a] + sg * v[m] * h[m]
    S.claim("coordinate_is_affine_with_documented_orientation", S.eq(list(cv), exp_cv))
    S.observe("coordinate_v", list(cv))
    for m in range(dim):
        a, sg = orient[m]
        v2 = list(v)
        v2[m] = v2[m] + 1
        step = cs.coordinate(list(v2)) - cv
        exp = [0] * dim
        exp[a] = sg * h[m]
        S.claim(f"one_voxel_step_along_axis{m}", S.eq(list(step), exp))
    # every point strictly inside the voxel converts to it
    t = [S.real(f"t{m}", lo="1/1000000", hi="999999/1000000") for m in range(dim)]
    pt = [0] * dim
    for m in range(dim):
        a, sg = orient[m]
        pt[a] = exp_cv[a] + sg * t[m] * h[m]
    vox = cs.voxel(list(pt))
    S.observe("voxel_of_point", list(vox))
    S.claim("interior_point_converts_to_its_voxel", S.eq(list(vox), v))
    arr = np.array(pt, dtype=object if S.instrumented() else float)
    S.claim("interior_point_converts_to_its_voxel_ndarray_and_typed", S.and_(
        S.eq(list(cs.voxel(arr)), v),
        S.eq(list(cs.voxel(darsia.Coordinate(arr))), v),
        S.eq(list(darsia.Coordinate(arr).to_voxel(cs)), v),
    ))
    # voxel centre -> coordinate -> voxel, through the typed points
    vc = darsia.VoxelCenter(list(v))
    S.claim("voxel_center_object_is_index_plus_half", S.eq(list(vc), [x + S.const("1/2") for x in v]))
    S.claim("voxel_center_to_coordinate_and_back", S.eq(list(vc.to_coordinate(cs).to_voxel(cs)), v))
    S.claim("voxel_to_center_to_voxel", S.eq(list(darsia.Voxel(list(v)).to_voxel_center().to_voxel()), v))
    S.claim("voxel_center_to_voxel", S.eq(list(vc.to_voxel()), v))
    S.claim("coordinate_to_voxel_center", S.eq(list(darsia.Coordinate(arr).to_voxel_center(cs)), [x + S.const("1/2") for x in v]))
    S.claim("voxel_to_coordinate_typed", S.eq(list(darsia.Voxel(list(v)).to_coordinate(cs)), exp_cv))
    S.claim("generic_to_dispatch", S.and_(
        S.eq(list(darsia.Voxel(list(v)).to(darsia.Coordinate, cs)), exp_cv),
        S.eq(list(darsia.Coordinate(arr).to(darsia.Voxel, cs)), v),
        S.eq(list(darsia.Coordinate(arr).to(darsia.VoxelCenter, cs)), [x + S.const("1/2") for x in v]),
        S.eq(list(vc.to(darsia.Voxel, cs)), v),
    ))
    S.claim("typed_results_have_the_right_type", isinstance(vc.to_coordinate(cs), darsia.Coordinate) and isinstance(darsia.Coordinate(arr).to_voxel(cs), darsia.Voxel) and isinstance(darsia.Voxel(list(v)).to_voxel_center(), darsia.VoxelCenter))

    # ---- batch call forms: row-wise identical to single calls
    w = [S.integer(f"w{m}", -(10**7), 10**7, default=lambda rng: rng.randint(-40, 40)) for m in range(dim)]
    cw = cs.coordinate(list(w))
    batch = cs.coordinate([list(v), list(w)])
    S.claim("batch_coordinate_is_rowwise", S.and_(S.eq(list(batch[0]), list(cv)), S.eq(list(batch[1]), list(cw)), batch.shape == (2, dim)))
    va = darsia.make_voxel([list(v), list(w)])
    batch2 = cs.coordinate(va)
    S.claim("batch_coordinate_typed_is_rowwise", S.and_(S.eq(list(np.asarray(batch2)[0]), list(cv)), S.eq(list(np.asarray(batch2)[1]), list(cw))))
    pw = [0] * dim
    for m in range(dim):
        a, sg = orient[m]
        pw[a] = cw[a] + sg * t[m] * h[m]
    bv = cs.voxel([list(pt), list(pw)])
    S.claim("batch_voxel_is_rowwise", S.and_(S.eq(list(np.asarray(bv)[0]), v), S.eq(list(np.asarray(bv)[1]), w), np.asarray(bv).shape == (2, dim)))
    ca = darsia.make_coordinate([list(pt), list(pw)])
    S.claim("batch_typed_roundtrip", S.and_(
        S.eq(list(np.asarray(ca.to_voxel(cs))[1]), w),
        S.eq(list(np.asarray(darsia.make_voxel_center([list(v), list(w)]).to_coordinate(cs).to_voxel(cs))[0]), v),
        S.eq(list(np.asarray(va.to_voxel_center().to_voxel())[1]), w),
    ))
    # relative vectors
    pv = [S.real(f"pv{m}", lo=-100, hi=100) for m in range(dim)]
    vec = cs.coordinate_vector(np.array(pv, dtype=object if S.instrumented() else float))
    exp = [0] * dim
    for m in range(dim):
        a, sg = orient[m]
        exp[a] = sg * pv[m] * h[m]
    S.claim("coordinate_vector_scales_by_voxel_size_with_orientation", S.eq(list(vec), exp))
    # lengths
    for m in range(dim):
        a, sg = orient[m]
        S.claim(f"length_and_voxel_size_axis_{'xyz'[a]}", S.and_(S.eq(cs.voxel_size["xyz"[a]], h[m]), S.eq(cs.length(3, "xyz"[a]), 3 * h[m])))
    # ---- the origin of the SAME image object changes after its coordinate system was used (reset_origin,
    # then assignment): voxel zero, the opposite corner and point -> voxel follow the origin the image has now
    dflt = [0] * dim
    for m in range(dim):
        a, sg = orient[m]
        dflt[a] = dims[m] if sg < 0 else 0
    img.reset_origin()
    n_org = [S.real(f"n{e}", lo=-1000, hi=1000) for e in range(dim)]
    for label, want in (("reset_origin", dflt), ("assigning_an_origin", n_org)):
        if label == "assigning_an_origin":
            img.origin = darsia.Coordinate(np.array(n_org, dtype=object)) if S.instrumented() else darsia.Coordinate(n_org)
        cs2 = img.coordinatesystem
        p2 = [0] * dim
        for m in range(dim):
            a, sg = orient[m]
            p2[a] = want[a] + sg * (v[m] + t[m]) * h[m]
        opp2 = img.opposite_corner
        S.claim(f"after_{label}_voxel_zero_corner_and_interior_points_follow_the_new_origin", S.and_(
            S.eq(list(img.origin), want),
            S.eq(list(cs2.coordinate([0] * dim)), want),
            S.eq([opp2[a] - want[a] for a in range(dim)], disp),
            S.eq(list(cs2.voxel(list(p2))), v),
        ))
