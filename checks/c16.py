"""C16 -- solvers and regularisers carry no hidden state between calls.

Real code executed symbolically: Jacobi.__call__/_diag/_neighbor_accumulation,
Solver.update_params, MG.__call__/base_V_Cycle/restriction/prolongation/operator,
H1_regularization (array and Image, default and explicit solver), split_bregman_tvd
(anisotropic), AndersonAcceleration.__call__.
Symbolic: the image, the right-hand side, mu / omega / ell / h of the call under test AND of
every earlier call made through the real code on the same object (or on the library's
default solver instance).  Claim: the last call equals the same call on fresh objects.
"""
import itertools

import numpy as np

from symx import api as S

PROPERTY = "C16"
OPTIONS = dict(validate=10, query_timeout_ms=60000)
STUBS = ["skimage.img_as_float / img_as_float64 on float arrays = identity", "Anderson's scipy.linalg.lstsq = an uninterpreted function of its arguments (same inputs -> same coefficients)"]
OUTSIDE = ["skimage's own TVD variants (compiled)", "the numba shrinkage of the isotropic split-Bregman branch", "AMG hierarchy state / re-used Wasserstein solver objects (factorisation reuse is covered by C08)"]
ASSUMPTIONS = ["mu, omega, ell, h positive", "every path starts from the freshly imported library (forked child) = 'fresh interpreter'"]

SHAPES = {"2x2": (2, 2), "3": (3,), "2x3": (2, 3), "4x2": (4, 2), "4x4": (4, 4), "3x3": (3, 3), "2x2x2": (2, 2, 2), "5": (5,)}


def bounds(tier):
    return "image shapes 2x2, (3,), 2x3 (MG: 4x2, 2x2); histories of %s earlier calls with their own symbolic parameters, with and without update_params in between; default versus explicit solver argument; Jacobi maxiter 1..2, MG depth 0..1; TVD 1..2 iterations; Anderson depth 1..2 with restart, two runs on one object" % ("0..1" if tier == "quick" else "0..3")


def configs(tier):
    out = []
    hs = (0, 1) if tier == "quick" else (0, 1, 2, 3)
    for sh in (("2x2", "3", "2x3") if tier == "quick" else ("2x2", "3", "2x3", "3x3", "2x2x2", "5")):
        for hist in hs:
            for it in ((1, 2) if tier == "quick" else (1, 2, 3)):
                if it >= 2 and sh not in ("2x2", "3"):
                    continue
                out.append(dict(kind="jacobi", shape=sh, hist=hist, maxiter=it))
            for via in ("default", "explicit_shared", "image_default"):
                out.append(dict(kind="h1", shape=sh, hist=hist, via=via))
            if sh not in ("3", "5", "2x2x2"):
                for its in (1, 2):
                    if its == 2 and sh != "2x2":
                        continue
                    out.append(dict(kind="tvd", shape=sh, hist=hist, iters=its))
    for sh in ("4x2", "2x2", "4x4"):
        for hist in hs:
            for depth in (0, 1):
                if (depth == 1) != (sh == "4x4"):
                    continue
                out.append(dict(kind="mg", shape=sh, hist=hist, depth=depth))
    for depth, restart in ((1, None), (2, None), (1, 2), (2, 3)):
        out.append(dict(kind="anderson", depth=depth, restart=restart, n=4 if restart is None else 2 * restart + 1))
    for hist in hs:
        out.append(dict(kind="mg_hetero", shape="4x4", hist=hist, depth=0))
    # one solver object used on arrays of DIFFERENT sizes: the earlier (smaller) array must not shape the later solve
    for first, main, depth in (([4], [8], 1), ([8], [4], 1)) + (() if tier == "quick" else (([8], [16], 2), ([4, 4], [8, 8], 1), ([16], [8], 2))):
        out.append(dict(kind="mg_sizes", first=first, main=main, depth=depth))
        out.append(dict(kind="jacobi_sizes", first=first, main=main))
    # one solver object used on arrays of the SAME shape and another dtype (work arrays kept between calls)
    for first, main in (("float32", "float64"), ("float64", "float32"), ("int64", "float64")):
        for via in ("jacobi", "h1_default"):
            out.append(dict(kind="jacobi_dtypes", first=first, main=main, via=via))
    # one TVD object applied twice (options read from the object must still be there on the second call)
    for iso in (False, True):
        out.append(dict(kind="tvd_object", shape="2x3", isotropic=iso))
    # a Wasserstein solver OBJECT used for a second pair (concolic: concrete masses, symbolic tolerances; body shared with C04)
    for method in ("newton", "bregman", "bregman_adaptive"):
        out.append(dict(kind="wasserstein_reuse", shape=[2, 2], method=method, num_iter=3, aa=0, draw=5, second_call=True))
    # the discretisation of a new Wasserstein solver object does not depend on objects built earlier in the process
    for shp in ([2, 2], [3, 2], [2, 1, 2]) + (() if tier == "quick" else ([3], [3, 3], [2, 2, 2])):
        for method in ("newton", "bregman"):
            out.append(dict(kind="wasserstein_setup", gshape=shp, method=method))
    return out


def validate_always(cfg):
    return cfg["kind"] == "jacobi_dtypes"  # real dtypes: evaluated on the plain import


def body_dtypes(cfg, da):
    S.claim("configuration_reached", True)
    if S.instrumented():
        return
    rng = np.random.default_rng(3)
    a = (rng.integers(-40, 40, size=(5, 4)) / 8.0)
    b = (rng.integers(-40, 40, size=(5, 4)) / 3.0)
    first = (a * 8).astype(cfg["first"]) if cfg["first"].startswith("int") else a.astype(cfg["first"])
    main = b.astype(cfg["main"])
    if cfg["via"] == "jacobi":
        J = da.Jacobi(maxiter=3, dim=2, mass_coeff=1.0, diffusion_coeff=0.5)
        try:
            J(first.copy(), first.copy(), h=0.5)
        except Exception:
            pass  # what the earlier call does with its own array is not the subject
        got = J(main.copy(), main.copy(), h=0.5)
        ref = da.Jacobi(maxiter=3, dim=2, mass_coeff=1.0, diffusion_coeff=0.5)(main.copy(), main.copy(), h=0.5)
    else:
        kw = dict(mu=0.5, omega=1.0, dim=2)
        try:
            da.H1_regularization(first.copy(), **kw)
        except Exception:
            pass
        got = da.H1_regularization(main.copy(), **kw)
        import base64
        import os
        import pickle
        import subprocess
        import sys

        code = ("import sys,pickle,base64,numpy as np,darsia as da;"
                "m,kw=pickle.loads(base64.b64decode(sys.argv[1]));"
                "sys.stdout.buffer.write(base64.b64encode(pickle.dumps(np.asarray(da.H1_regularization(m,**kw)))))")
        out = subprocess.run([sys.executable, "-c", code, base64.b64encode(pickle.dumps((main.copy(), kw))).decode()], capture_output=True, check=True, env=dict(os.environ, PYTHONPATH=os.pathsep.join(p for p in sys.path if p))).stdout
        ref = pickle.loads(base64.b64decode(out))  # the same call as the first one of a fresh process
    got, ref = np.asarray(got), np.asarray(ref)
    S.claim("result_on_this_array_is_that_of_an_unused_solver", bool(got.dtype == ref.dtype and got.shape == ref.shape and np.array_equal(got, ref)))


def install_stubs():
    import z3

    from . import c04

    c04.install_stubs()  # exact linear solves / hmean for the Wasserstein configurations (Anderson's lstsq is re-stubbed below)

    import darsia.restoration.h1_regularization as h1
    import darsia.restoration.split_bregman_tvd as tv
    import darsia.utils.andersonacceleration as aa
    import darsia.utils.dtype as dty
    from symx import npx
    from symx.core import SymReal, rterm

    def skproxy(real):
        class SK:
            def __getattr__(self, n):
                return getattr(real, n)

            @staticmethod
            def img_as_float(a, *x, **k):
                return a if npx.has_sym(a) else real.img_as_float(a, *x, **k)

            @staticmethod
            def img_as_float64(a, *x, **k):
                return a if npx.has_sym(a) else real.img_as_float64(a, *x, **k)

        return SK()

    for m in (h1, tv, dty):
        m.skimage = skproxy(m.skimage)

    real_sp = aa.sp

    class _L:
        def __getattr__(self, n):
            return getattr(real_sp.linalg, n)

        @staticmethod
        def lstsq(A, b, *a, **k):
            if npx.has_sym(A) or npx.has_sym(b):
                m = A.shape[1]
                if S.symbolic():
                    args = [z3.simplify(rterm(e), som=True) for e in list(np.asarray(A, dtype=object).ravel()) + list(np.asarray(b, dtype=object).ravel())]
                    out = np.empty(m, dtype=object)
                    for j in range(m):
                        F = z3.Function(f"lstsq_{len(args)}_{j}", *([z3.RealSort()] * len(args)), z3.RealSort())
                        out[j] = SymReal(F(*args))
                    return out, None, None, None
                Af = np.array([[S.tofloat(v) for v in row] for row in A], dtype=float)
                bf = np.array([S.tofloat(v) for v in b], dtype=float)
                gf = real_sp.linalg.lstsq(Af, bf)[0]
                return np.array([S.const(float(v)) for v in gf], dtype=object), None, None, None
            return real_sp.linalg.lstsq(A, b, *a, **k)

    class _SP:
        linalg = _L()

        def __getattr__(self, n):
            return getattr(real_sp, n)

    aa.sp = _SP()


def _params(tag):
    return dict(mu=S.real(f"mu{tag}", lo="1/10", hi=10), omega=S.real(f"om{tag}", lo="1/10", hi=10), h=S.real(f"h{tag}", lo="1/4", hi=4), ell=S.real(f"ell{tag}", lo="1/10", hi=10))


def body_sizes(cfg, da):
    first, main = tuple(cfg["first"]), tuple(cfg["main"])
    dim = len(main)
    P = _params("p")
    Q = _params("q")
    a0, a = S.array("first", first, lo=-10, hi=10), S.array("img", main, lo=-10, hi=10)
    rhs = S.array("rhs", main, lo=-10, hi=10)
    if cfg["kind"] == "mg_sizes":
        mk = lambda om, mu: da.MG(depth=cfg["depth"], smoother_iterations=1, maxiter=1, dim=dim, mass_coeff=om, diffusion_coeff=mu)  # noqa: E731
    else:
        mk = lambda om, mu: da.Jacobi(maxiter=1, dim=dim, mass_coeff=om, diffusion_coeff=mu)  # noqa: E731
    M = mk(Q["omega"], Q["mu"])
    M(a0.copy(), a0.copy())
    M.update_params(mass_coeff=P["omega"], diffusion_coeff=P["mu"], dim=dim)
    got = M(a.copy(), rhs.copy())
    ref = mk(P["omega"], P["mu"])(a.copy(), rhs.copy())
    S.claim("solve_after_a_solve_on_another_array_size_equals_fresh_solver", S.and_(np.shape(got) == np.shape(ref), S.eq(got, ref) if np.shape(got) == np.shape(ref) else False))
    S.observe("got", got)


def body_wasserstein_setup(cfg, da):
    import darsia.measure.wasserstein as ws

    shape = tuple(cfg["gshape"])
    dim = len(shape)
    cls = ws.WassersteinDistanceNewton if cfg["method"] == "newton" else ws.WassersteinDistanceBregman
    g = [S.real(f"g{d}", lo="1/100", hi=100) for d in range(dim)]
    h = [S.real(f"h{d}", lo="1/100", hi=100) for d in range(dim)]
    cls(da.Grid(shape, list(g)), None, {})  # an earlier solver object on a grid of the same shape, other spacing
    grid = da.Grid(shape, list(h))
    W = cls(grid, None, {})
    nf, nc = int(grid.num_faces), int(grid.num_cells)
    u = S.array("u", nf, lo=-10, hi=10)
    p = S.array("p", nc, lo=-10, hi=10)
    lam = S.real("lam", lo=-10, hi=10)
    D = da.FVDivergence(grid).mat
    Mc = da.FVMass(grid).mat
    Mf = da.FVMass(grid, "faces", True).mat
    S.claim("new_solver_object_has_the_divergence_of_its_own_grid", S.eq(W.div.dot(u), D.dot(u)))
    S.claim("new_solver_object_has_the_mass_matrices_of_its_own_grid", S.and_(S.eq(W.mass_matrix_cells.dot(p), Mc.dot(p)), S.eq(W.mass_matrix_faces.dot(u), Mf.dot(u))))
    x = np.concatenate([u, p, np.array([lam], dtype=u.dtype)])
    c = int(W.constrained_cell_flat_index)
    top = Mf.dot(u) - D.T.dot(p)
    mid = D.dot(u)
    mid = np.array([mid[i] - (lam if i == c else 0) for i in range(nc)], dtype=u.dtype)
    want = np.concatenate([top, mid, np.array([p[c]], dtype=u.dtype)])
    S.claim("initial_darcy_operator_is_assembled_from_the_operators_of_its_own_grid", S.eq(W.darcy_init.dot(x), want))
    S.observe("div_u", W.div.dot(u))


def body(cfg):
    import darsia as da

    k = cfg["kind"]
    if k == "anderson":
        return body_anderson(cfg, da)
    if k == "jacobi_dtypes":
        return body_dtypes(cfg, da)
    if k in ("mg_sizes", "jacobi_sizes"):
        return body_sizes(cfg, da)
    if k == "wasserstein_setup":
        return body_wasserstein_setup(cfg, da)
    if k == "tvd_object":
        return body_tvd_object(cfg, da)
    if k == "wasserstein_reuse":
        from . import c04

        c04.ST.update(solve_calls=0, weight_calls=0, fault_at=None, fault_kind=None, fired=False)
        c04._norm_uf() if S.instrumented() else None
        return c04.body_stopping(cfg, da)
    shape = SHAPES[cfg["shape"]]
    dim = len(shape)
    img = S.array("img", shape, lo=-5, hi=5)
    rhs = S.array("rhs", shape, lo=-5, hi=5)
    P = _params("")
    hist = [_params(f"_{i}") for i in range(cfg["hist"])]
    himgs = [S.array(f"himg{i}", shape, lo=-5, hi=5) for i in range(cfg["hist"])]
    if k == "jacobi":
        J = da.Jacobi(maxiter=cfg["maxiter"], dim=dim)
        for Q, hi in zip(hist, himgs):
            J.update_params(mass_coeff=Q["omega"], diffusion_coeff=Q["mu"], dim=dim)
            J(hi.copy(), hi.copy(), h=Q["h"])
        J.update_params(mass_coeff=P["omega"], diffusion_coeff=P["mu"], dim=dim)
        got = J(img.copy(), rhs.copy(), h=P["h"])
        F = da.Jacobi(maxiter=cfg["maxiter"], dim=dim, mass_coeff=P["omega"], diffusion_coeff=P["mu"])
        ref = F(img.copy(), rhs.copy(), h=P["h"])
        S.claim("jacobi_result_depends_only_on_this_call", S.eq(got, ref))
        if cfg["maxiter"] == 1:
            # one sweep, closed form: x_i = (rhs_i + mu/h^2 * sum of the 2*dim neighbours (edge-replicated)) / (omega + 2*dim*mu/h^2)
            exp = np.empty(shape, dtype=object if S.instrumented() else float)
            c = P["mu"] / (P["h"] * P["h"])
            for idx in np.ndindex(*shape):
                acc = 0
                for ax in range(dim):
                    for d_ in (-1, 1):
                        j = list(idx)
                        j[ax] = min(max(idx[ax] + d_, 0), shape[ax] - 1)
                        acc = acc + img[tuple(j)]
                exp[idx] = (rhs[idx] + c * acc) / (P["omega"] + 2 * dim * c)
            S.claim("jacobi_sweep_closed_form", S.eq(ref, exp))
        S.claim("arguments_untouched", S.and_(S.eq(img, S.array("img", shape, lo=-5, hi=5)), S.eq(rhs, S.array("rhs", shape, lo=-5, hi=5))))
        S.observe("got", got)
        return
    if k == "mg":
        M = da.MG(depth=cfg["depth"], smoother_iterations=1, maxiter=1, dim=dim)
        for Q, hi in zip(hist, himgs):
            M.update_params(mass_coeff=Q["omega"], diffusion_coeff=Q["mu"], dim=dim)
            M(hi.copy(), hi.copy())
        M.update_params(mass_coeff=P["omega"], diffusion_coeff=P["mu"], dim=dim)
        got = M(img.copy(), rhs.copy())
        F = da.MG(depth=cfg["depth"], smoother_iterations=1, maxiter=1, dim=dim, mass_coeff=P["omega"], diffusion_coeff=P["mu"])
        ref = F(img.copy(), rhs.copy())
        S.claim("multigrid_result_depends_only_on_this_call", S.eq(got, ref))
        # within ONE call the smoother is used at spacing h and 2h: it must not keep the fine-level diagonal
        G = da.MG(depth=cfg["depth"], smoother_iterations=1, maxiter=1, dim=dim, mass_coeff=P["omega"], diffusion_coeff=P["mu"])
        calls = []
        real_call = da.Jacobi.__call__

        def spy(self, x0, rhs, h=1.0):
            fresh = da.Jacobi(maxiter=self.maxiter, dim=self.dim, mass_coeff=self.mass_coeff, diffusion_coeff=self.diffusion_coeff)
            a = real_call(self, x0.copy(), rhs.copy(), h=h)
            b = real_call(fresh, x0.copy(), rhs.copy(), h=h)
            calls.append(S.eq(a, b))
            return a

        da.Jacobi.__call__ = spy
        try:
            G(img.copy(), rhs.copy())
        finally:
            da.Jacobi.__call__ = real_call
        S.claim("smoother_inside_the_cycle_behaves_like_a_fresh_smoother_at_every_level", S.and_(calls))
        S.observe("got", got)
        return
    if k == "mg_hetero":
        # array-valued (heterogeneous) coefficients, constant on 2x2 blocks so that the coefficient
        # restriction / prolongation inside the cycle is exact
        def coeff(tag, lo, hi):
            blk = S.array(tag, (2, 2), lo=lo, hi=hi)
            return np.repeat(np.repeat(blk, 2, axis=0), 2, axis=1)

        M = da.MG(depth=0, smoother_iterations=1, maxiter=1, dim=2, mass_coeff=coeff("om0", "1/10", 10), diffusion_coeff=coeff("mu0", "1/10", 10))
        for i, hi in enumerate(himgs):
            M(hi.copy(), hi.copy())
        om, mu = coeff("om", "1/10", 10), coeff("mu", "1/10", 10)
        M.update_params(mass_coeff=om.copy(), diffusion_coeff=mu.copy(), dim=2)
        got = M(img.copy(), rhs.copy())
        F = da.MG(depth=0, smoother_iterations=1, maxiter=1, dim=2, mass_coeff=om.copy(), diffusion_coeff=mu.copy())
        ref = F(img.copy(), rhs.copy())
        S.claim("heterogeneous_multigrid_result_depends_only_on_this_call", S.eq(got, ref))
        return
    if k == "h1":
        explicit = da.Jacobi() if cfg["via"] == "explicit_shared" else None
        as_image = cfg["via"] == "image_default"

        def run(arr, Q, solver):
            data = da.Image(arr.copy(), dimensions=[1.0] * dim, space_dim=dim, scalar=True) if as_image else arr.copy()
            kw = dict(mu=Q["mu"], omega=Q["omega"], dim=dim)
            if solver is not None:
                kw["solver"] = solver
            out = da.H1_regularization(data, **kw)
            return out.img if as_image else out

        for Q, hi in zip(hist, himgs):
            run(hi, Q, explicit)
        got = run(img, P, explicit)
        ref = run(img, P, da.Jacobi())
        S.claim("h1_regularisation_depends_only_on_this_call", S.eq(got, ref))
        S.observe("got", got)
        return
    if k == "tvd":
        its = cfg["iters"]

        def run(arr, Q, solver):
            kw = dict(mu=Q["mu"], omega=Q["omega"], ell=Q["ell"], dim=dim, max_num_iter=its, isotropic=False)
            if solver is not None:
                kw["solver"] = solver
            return da.split_bregman_tvd(arr.copy(), **kw)

        for Q, hi in zip(hist, himgs):
            run(hi, Q, None)
        got = run(img, P, None)
        ref = run(img, P, da.Jacobi())
        S.claim("tv_denoising_depends_only_on_this_call", S.eq(got, ref))
        S.claim("tv_denoising_leaves_its_input", S.eq(img, S.array("img", shape, lo=-5, hi=5)))
        S.observe("got", got)
        return


def body_tvd_object(cfg, da):
    """darsia.TVD(method='heterogeneous bregman'): the second call of one object equals the call of a fresh
    object.  Concrete data when isotropic (the shrinkage takes square roots), symbolic otherwise."""
    from symx.core import ENGINE

    shape = SHAPES[cfg["shape"]]
    iso = cfg["isotropic"]
    if iso and S.symbolic():
        ENGINE.const_mode = True
    if iso:
        rng = np.random.default_rng(9)
        mk = lambda tag: np.array([S.const(f"{int(v)}/8") for v in rng.integers(-20, 21, size=int(np.prod(shape)))], dtype=object if S.instrumented() else float).reshape(shape)  # noqa: E731
        mu, om, ell = 0.5, 1.5, 0.75
    else:
        mk = lambda tag: S.array(tag, shape, lo=-5, hi=5)  # noqa: E731
        mu, om, ell = S.real("mu", lo="1/10", hi=5), S.real("om", lo="1/10", hi=5), S.real("ell", lo="1/10", hi=5)
    a1, a2 = mk("first"), mk("second")

    def tvd():
        return da.TVD(method="heterogeneous bregman", weight=mu, omega=om, max_num_iter=2 if iso else 1, eps=1e-12, isotropic=iso, dim=len(shape))

    T = tvd()
    try:
        T(a1.copy())
        got = T(a2.copy())
        ref = tvd()(a2.copy())
    except TypeError as e:
        raise S.HarnessSkip(f"TVD option set not accepted: {e}")
    S.claim("second_call_of_a_tvd_object_equals_a_fresh_object", S.and_(np.shape(got) == np.shape(ref), S.eq(got, ref) if np.shape(got) == np.shape(ref) else False))
    S.observe("got", got)


def body_anderson(cfg, da):
    n = cfg["n"]
    dimv = 3
    depth, restart = cfg["depth"], cfg["restart"]

    def run(acc, tag):
        outs = []
        for it in range(n):
            g = S.array(f"g{tag}{it}", dimv, lo=-5, hi=5)
            f = S.array(f"f{tag}{it}", dimv, lo=-5, hi=5)
            outs.append(acc(g.copy(), f.copy(), it))
        return outs

    A = da.AndersonAcceleration(dimension=None, depth=depth, restart=restart)
    run(A, "a")  # an earlier run with other data on the same object
    second = run(A, "b")
    F = da.AndersonAcceleration(dimension=None, depth=depth, restart=restart)
    ref = run(F, "b")
    S.claim("second_run_on_the_same_object_equals_a_fresh_object", S.and_([S.eq(x, y) for x, y in zip(second, ref)]))
    if restart is not None:
        # after a restart boundary nothing from before the boundary may matter
        G = da.AndersonAcceleration(dimension=None, depth=depth, restart=restart)
        tail = []
        for it in range(restart, n):
            g = S.array(f"gb{it}", dimv, lo=-5, hi=5)
            f = S.array(f"fb{it}", dimv, lo=-5, hi=5)
            tail.append(G(g.copy(), f.copy(), it))
        S.claim("iterates_after_a_restart_do_not_depend_on_calls_before_it", S.and_([S.eq(x, y) for x, y in zip(second[restart:], tail)]))
    S.claim("first_iteration_of_a_run_returns_its_input", S.eq(second[0], S.array("gb0", dimv, lo=-5, hi=5)))
    S.observe("second", [list(x) for x in second])
