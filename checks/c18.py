"""C18 -- saved images and corrections reload to equivalent objects (partial).

Real code executed symbolically: Image.save / metadata / __init__, imread / imread_from_npz,
read_correction, and the save / load / return_config / _init_from_config methods of
TypeCorrection, DriftCorrection, CurvatureCorrection, IlluminationCorrection, ColorCorrection.
Symbolic: pixel data, dimensions, origin, relative times, local scaling images, numeric
config entries.  The archive itself is a CONTRACT STUB in the instrumented modes:
np.savez(path, **kw) keeps, per keyword, what numpy stores (np.asanyarray of the value; objects
travel through pickle = a deep copy) and np.load hands it back; the plain import uses real
numpy and real files, and the two are compared on every run (translator validation), which
validates the contract.  DarSIA's share -- which keys are written, how the reader dispatches on
the class name, how objects are rebuilt from their config / metadata -- is what is decided.
NOT covered symbolically: the OpenCV codecs (PNG / TIFF byte strings, imwrite / imread); a
concrete round trip through the real codecs runs in the plain reference run only.
"""
import copy
import os
import shutil
import tempfile
from pathlib import Path

import numpy as np

from symx import api as S

PROPERTY = "C18"
OPTIONS = dict(validate="all", query_timeout_ms=60000)
STUBS = ["np.savez / np.load (instrumented modes): in-memory archive that keeps np.asanyarray(value) per keyword, objects deep-copied (pickle round trip); validated against real numpy + real files on the plain import every run"]
OUTSIDE = ["zip / pickle byte format", "OpenCV codecs: imread_from_bytes, OpticalImage.write + imread of PNG / TIFF are exercised with concrete arrays on the plain import only (reference run)", "corrections whose set-up needs feature detection or a colour checker in the image (only their persistence is checked)"]
ASSUMPTIONS = ["a stored object comes back as an equal deep copy (numpy's documented allow_pickle behaviour)"]

STORE = {}


def bounds(tier):
    return "images: space_dim 1..3 (shapes 3 / 2x3 / 2x2x2), scalar and 2-component, single and series of 2 with relative times, dates or neither, symbolic pixels / dimensions / origin; concrete dtypes bool, uint8, uint16, float32, float64; corrections: type (4 dtypes), drift (roi as slices / points / none, active or not), curvature (config with symbolic numbers, with and without cache), illumination (symbolic local scaling, rgb and scalar), colour (config flags, roi points)"


def configs(tier):
    out = []
    for dim, shape in ((1, [3]), (2, [2, 3]), (3, [2, 2, 2])):
        for vector in (False, True):
            for series, timeinfo in ((0, "none"), (2, "times"), (2, "dates"), (2, "none")):
                if tier == "quick" and dim != 2 and vector and series:
                    continue
                out.append(dict(kind="image", dim=dim, shape=shape, vector=vector, series=series, timeinfo=timeinfo))
    for dt in ("bool", "uint8", "uint16", "float32", "float64"):
        out.append(dict(kind="image_dtype", dtype=dt))
    for dt in ("float", "uint8", "uint16", "float32", "float64"):
        out.append(dict(kind="type_correction", dtype=dt))
    for roi in ("slices", "points", "none"):
        for active in (False, True):
            out.append(dict(kind="drift_correction", roi=roi, active=active))
    for cache in (False, True):
        out.append(dict(kind="curvature_correction", cache=cache))
    for space in ("rgb", "hsl-scalar"):
        out.append(dict(kind="illumination_correction", colorspace=space))
    for active in (False, True):
        out.append(dict(kind="color_correction", active=active))
    out.append(dict(kind="codecs"))
    return out


def validate_filter(cfg):
    return True


# ------------------------------------------------------------------------------ archive stub


def _deep(v):
    from symx.core import Sym

    if isinstance(v, Sym):
        return v
    if isinstance(v, np.ndarray):
        if v.dtype == object:
            out = np.empty(v.shape, dtype=object)
            for i in np.ndindex(*v.shape):
                out[i] = _deep(v[i])
            return out
        return v.copy()
    if isinstance(v, dict):
        return {k: _deep(x) for k, x in v.items()}
    if isinstance(v, list):
        return [_deep(x) for x in v]
    if isinstance(v, tuple):
        return tuple(_deep(x) for x in v)
    if hasattr(v, "img") and hasattr(v, "copy"):
        return v.copy()
    return copy.deepcopy(v)


def _as_stored(v):
    """what np.savez keeps for one keyword: np.asanyarray(v), objects pickled"""
    from symx import npx
    from symx.core import Sym

    if isinstance(v, np.ndarray):
        return _deep(v)
    if isinstance(v, Sym):
        a = np.empty((), dtype=object)
        a[()] = v
        return a
    if isinstance(v, (list, tuple)) and v and all(isinstance(x, (int, float, np.number, Sym)) and not isinstance(x, bool) for x in v):
        return np.array(list(v), dtype=object) if npx.has_sym(v) else np.asanyarray(v)
    if isinstance(v, (bool, int, float, str, np.number, np.bool_)):
        return np.asanyarray(v)
    a = np.empty((), dtype=object)
    a[()] = _deep(v)
    return a


class _Npz:
    def __init__(self, d):
        self._d = d
        self.files = list(d)

    def __getitem__(self, k):
        return self._d[k]

    def __contains__(self, k):
        return k in self._d

    def get(self, k, default=None):
        return self._d.get(k, default)

    def keys(self):
        return self._d.keys()


def _key(path):
    p = str(path)
    return p if p.endswith(".npz") else p + ".npz"


def install_stubs():
    from symx import npx

    def savez(file, *a, **kw):
        assert not a
        STORE[_key(file)] = {k: _as_stored(v) for k, v in kw.items()}
        Path(_key(file)).parent.mkdir(parents=True, exist_ok=True)
        Path(_key(file)).touch()  # so that is_file() / exists() checks of the loaders pass

    def load(file, *a, **kw):
        k = _key(file)
        if k not in STORE:
            raise FileNotFoundError(k)
        return _Npz({kk: _deep(vv) for kk, vv in STORE[k].items()})  # every load unpickles afresh

    npx.NP.savez = savez
    npx.NP.load = load


# ------------------------------------------------------------------------------ bodies


def _dt():
    return object if S.instrumented() else float


def _same_meta(a, b):
    return S.and_(
        S.eq(list(a.dimensions), list(b.dimensions)), S.eq(list(a.origin), list(b.origin)), a.space_dim == b.space_dim, bool(a.series) == bool(b.series), bool(a.scalar) == bool(b.scalar),
        a.indexing == b.indexing, a.name == b.name, a.date == b.date, _eq_tree(a.time, b.time),
    )


def body(cfg):
    import darsia

    tmp = Path(tempfile.mkdtemp(prefix="c18_"))
    STORE.clear()
    try:
        return _body(cfg, darsia, tmp)
    finally:
        shutil.rmtree(tmp, ignore_errors=True)


def _body(cfg, darsia, tmp):
    import datetime

    k = cfg["kind"]
    if k == "image":
        dim, shape = cfg["dim"], tuple(cfg["shape"])
        T = cfg["series"]
        full = shape + ((T,) if T else ()) + ((2,) if cfg["vector"] else ())
        a = S.array("a", full, lo=-10, hi=10)
        dims = [S.real(f"d{m}", lo="1/10", hi=10) for m in range(dim)]
        org = [S.real(f"o{m}", lo=-5, hi=5) for m in range(dim)]
        kw = dict(dimensions=list(dims), origin=list(org), space_dim=dim, scalar=not cfg["vector"], series=bool(T), name="field")
        if T and cfg["timeinfo"] == "times":
            kw["time"] = [S.real("t0", lo=0, hi=5), S.real("t1", lo=5, hi=10)]
        if T and cfg["timeinfo"] == "dates":
            kw["date"] = [datetime.datetime(2024, 1, 1, 12, 0, 0), datetime.datetime(2024, 1, 1, 13, 30, 0)]
        if not T and cfg["timeinfo"] == "dates":
            kw["date"] = datetime.datetime(2024, 1, 1, 12, 0, 0)
        img = darsia.Image(a.copy(), **kw)
        path = tmp / "sub" / "image.npz"
        img.save(path, verbose=False)
        back = darsia.imread(path)
        ok = tuple(back.img.shape) == tuple(a.shape)
        S.claim("reloaded_pixels_identical", S.and_(ok, S.eq(back.img, a) if ok else False))
        S.claim("reloaded_metadata_identical", _same_meta(back, img))
        S.claim("reloaded_geometry_is_the_saved_one", S.and_(S.eq(list(back.dimensions), dims), S.eq(list(back.origin), org), S.eq(list(back.voxel_size), list(img.voxel_size))))
        S.claim("saving_leaves_the_image_untouched", S.and_(S.eq(img.img, a), S.eq(list(img.dimensions), dims)))
        again = darsia.imread_from_npz(path)
        S.claim("second_read_gives_an_independent_equal_image", S.and_(S.eq(again.img, a), again.img is not back.img))
        S.observe("pix", back.img)
        return
    if k == "image_dtype":
        dt = np.dtype(cfg["dtype"])
        rng = np.random.default_rng(11)
        raw = (rng.integers(0, 2, size=(3, 4)).astype(bool) if dt.kind == "b" else rng.integers(0, 250, size=(3, 4)).astype(dt) if dt.kind == "u" else rng.uniform(0, 1, size=(3, 4)).astype(dt))
        img = darsia.Image(raw.copy(), dimensions=[1.5, 2.0], scalar=True, name="typed")
        path = tmp / "typed.npz"
        img.save(path, verbose=False)
        back = darsia.imread(path)
        S.claim("reloaded_dtype_and_values_identical", bool(back.img.dtype == dt and np.array_equal(back.img, raw)))
        S.claim("reloaded_metadata_identical", _same_meta(back, img))
        return
    if k == "type_correction":
        T = {"float": float, "uint8": np.uint8, "uint16": np.uint16, "float32": np.float32, "float64": np.float64}[cfg["dtype"]]
        c = darsia.TypeCorrection(T)
        path = tmp / "type.npz"
        c.save(path)
        r = darsia.read_correction(path)
        S.claim("reader_returns_the_saved_class", type(r) is darsia.TypeCorrection)
        S.claim("type_correction_reloads_its_data_type", r.data_type is c.data_type)
        same = []
        for raw in (np.arange(12, dtype=np.uint8).reshape(3, 4) * 20, (np.arange(12, dtype=np.uint16).reshape(3, 4) * 5000), np.linspace(0, 1, 12, dtype=np.float32).reshape(3, 4), np.linspace(0, 1, 12).reshape(3, 4)):
            o1, o2 = c.correct_array(raw.copy()), r.correct_array(raw.copy())
            same.append(bool(o1.dtype == o2.dtype and np.array_equal(o1, o2)))
        S.claim("reloaded_correction_gives_identical_output", all(same))
        return
    if k == "drift_correction":
        base = np.arange(48, dtype=float).reshape(4, 4, 3) / 48.0
        pad = S.real("pad", lo=0, hi="1/4")
        roi = {"slices": (slice(0, 3), slice(1, 4)), "points": [[0, 1], [3, 3], [2, 0]], "none": None}[cfg["roi"]]
        config = {"active": cfg["active"], "padding": pad}
        if roi is not None:
            config["roi"] = roi
        c = darsia.DriftCorrection(base.copy(), config=config)
        path = tmp / "drift.npz"
        c.save(path)
        r = darsia.read_correction(path)
        S.claim("reader_returns_the_saved_class", type(r) is darsia.DriftCorrection)
        S.claim("drift_correction_reloads_base_and_config", S.and_(bool(np.array_equal(r.base, c.base)), r.active == c.active, S.eq(r.relative_padding, c.relative_padding), r.roi == c.roi))
        S.claim("drift_correction_reload_is_usable", hasattr(r, "translation_estimator"))
        if not cfg["active"]:
            x = S.array("x", (4, 4, 3), lo=0, hi=1)
            S.claim("reloaded_correction_gives_identical_output", S.eq(r.correct_array(x.copy()), c.correct_array(x.copy())))
        return
    if k == "curvature_correction":
        cx, cy = S.real("cx", lo=-1, hi=1), S.real("cy", lo=-1, hi=1)
        config = {
            "init": {"horizontal_bulge": cx, "vertical_bulge": cy},
            "crop": {"pts_src": [[1, 2], [1, 30], [40, 30], [40, 2]], "width": S.real("w", lo=1, hi=2), "height": S.real("h", lo=1, hi=2)},
            "use_cache": False,
        }
        c = darsia.CurvatureCorrection(config=config)
        if cfg["cache"]:
            c.cache = {"shape": (4, 5), "grid": np.arange(20.0).reshape(4, 5)}
        path = tmp / "curv" / "curvature.npz"
        c.save(path)
        r = darsia.read_correction(path)
        S.claim("reader_returns_the_saved_class", type(r) is darsia.CurvatureCorrection)
        S.claim("curvature_correction_reloads_its_config", _eq_tree(r.config, c.config))
        S.claim("curvature_config_is_a_copy_not_an_alias", r.config is not c.config)
        if cfg["cache"]:
            S.claim("curvature_correction_reloads_its_cache", S.and_(hasattr(r, "cache"), _eq_tree(getattr(r, "cache", None), c.cache)))
        else:
            S.claim("curvature_correction_reloads_its_empty_cache", _eq_tree(getattr(r, "cache", None), c.cache))
        S.claim("metadata_update_of_the_reloaded_correction_is_identical", _eq_tree(r.correct_metadata({"dimensions": [1.0, 1.0], "origin": [0.0, 1.0]}), c.correct_metadata({"dimensions": [1.0, 1.0], "origin": [0.0, 1.0]})))
        return
    if k == "illumination_correction":
        c = darsia.IlluminationCorrection()
        c.colorspace = cfg["colorspace"]
        n = 3 if cfg["colorspace"] == "rgb" else 1
        L = [S.array(f"L{i}", (2, 3), lo="1/2", hi=2) for i in range(n)]
        c.local_scaling = [darsia.ScalarImage(x.copy(), dimensions=[1.0, 2.0]) for x in L]
        path = tmp / "illum" / "illumination.npz"
        c.save(path)
        r = darsia.read_correction(path)
        S.claim("reader_returns_the_saved_class", type(r) is darsia.IlluminationCorrection)
        S.claim("illumination_correction_reloads_colorspace_and_scaling", S.and_(r.colorspace == c.colorspace, len(r.local_scaling) == n, S.and_([S.eq(r.local_scaling[i].img, L[i]) for i in range(min(n, len(r.local_scaling)))])))
        x = S.array("x", (2, 3, 3), lo=0, hi=1)
        S.claim("reloaded_correction_gives_identical_output", S.eq(r.correct_array(x.copy()), c.correct_array(x.copy())))
        S.claim("reloaded_scaling_is_independent_of_the_saved_object", all(r.local_scaling[i] is not c.local_scaling[i] for i in range(min(n, len(r.local_scaling)))))
        return
    if k == "color_correction":
        roi = [[10, 10], [10, 50], [70, 50], [70, 10]]
        config = {"roi": roi, "active": cfg["active"], "whitebalancing": False, "colorbalancing": "linear", "balancing": "darsia", "clip": True}
        c = darsia.ColorCorrection(config=config)
        path = tmp / "color" / "color.npz"
        c.save(path)
        r = darsia.read_correction(path)
        S.claim("reader_returns_the_saved_class", type(r) is darsia.ColorCorrection)
        S.claim("color_correction_reloads_its_config_and_flags", S.and_(_eq_tree(r.config, c.config), r.active == c.active, r.whitebalancing == c.whitebalancing, r.colorbalancing == c.colorbalancing, r.balancing == c.balancing, r.clip == c.clip, bool(np.array_equal(np.asarray(r.roi), np.asarray(c.roi)))))
        S.claim("color_correction_reloads_its_reference_swatches", bool(np.allclose(r.colorchecker.swatches_rgb, c.colorchecker.swatches_rgb, rtol=0, atol=0)))
        return
    if k == "codecs":
        # real OpenCV codecs: evaluated on the plain import (reference run); the instrumented modes only state the claim names
        if S.instrumented():
            S.claim("lossless_byte_strings_decode_to_the_original_rgb_array", True)
            S.claim("optical_image_written_losslessly_reads_back_identically", True)
            return
        import cv2

        rng = np.random.default_rng(3)
        ok = []
        for dt, ext in ((np.uint8, ".png"), (np.uint16, ".png"), (np.uint8, ".tif"), (np.uint16, ".tif")):
            for shp in ((5, 7), (1, 6), (6, 1), (1, 1)):
                rgb = rng.integers(0, np.iinfo(dt).max, size=shp + (3,)).astype(dt)
                okb, buf = cv2.imencode(ext, cv2.cvtColor(rgb, cv2.COLOR_RGB2BGR))
                back = darsia.imread_from_bytes(buf.tobytes(), dimensions=[1.0, 1.4])
                ok.append(bool(okb and isinstance(back, darsia.OpticalImage) and back.img.dtype == dt and back.img.shape == rgb.shape and np.array_equal(back.img, rgb)))
                grey = rng.integers(0, np.iinfo(dt).max, size=shp).astype(dt)
                okb, buf = cv2.imencode(ext, grey)
                back = darsia.imread_from_bytes(buf.tobytes(), dimensions=[1.0, 1.4])
                ok.append(bool(okb and isinstance(back, darsia.ScalarImage) and back.img.dtype == dt and np.array_equal(np.squeeze(back.img), np.squeeze(grey)) and back.img.shape[:2] == shp))
        S.claim("lossless_byte_strings_decode_to_the_original_rgb_array", all(ok))
        ok = []
        import skimage

        for ext in (".png", ".tif"):
            for space in ("RGB", "BGR"):
                arr = rng.integers(0, 255, size=(6, 4, 3)).astype(np.uint8)
                im = darsia.OpticalImage(arr.copy(), dimensions=[1.2, 0.8], color_space=space)
                p = tmp / ("written_" + space + ext)
                im.write(p)
                back = darsia.imread(p, dimensions=[1.2, 0.8])
                rgb = arr if space == "RGB" else arr[..., ::-1]
                # the reader delivers optical images as floats in [0, 1] in RGB: "the same colours" = the same values on that scale
                ok.append(bool(type(back) is darsia.OpticalImage and back.img.shape == rgb.shape and np.allclose(skimage.img_as_float(back.img), skimage.img_as_float(rgb), rtol=0, atol=1e-12) and back.color_space == "RGB"))
                ok.append(bool(np.array_equal(im.img, arr) and im.color_space == space))  # writing leaves the image as it was
        S.claim("optical_image_written_losslessly_reads_back_identically", all(ok))
        return
    raise ValueError(k)


def _eq_tree(a, b):
    """structural equality of configs (dicts / lists / tuples / arrays / numbers, possibly symbolic)"""
    if isinstance(a, dict) or isinstance(b, dict):
        if not (isinstance(a, dict) and isinstance(b, dict)) or set(a) != set(b):
            return False
        return S.and_([_eq_tree(a[k], b[k]) for k in a]) if a else True
    if isinstance(a, (list, tuple)) or isinstance(b, (list, tuple)):
        if not (isinstance(a, (list, tuple)) and isinstance(b, (list, tuple))) or len(a) != len(b):
            return False
        return S.and_([_eq_tree(x, y) for x, y in zip(a, b)]) if a else True
    if isinstance(a, np.ndarray) or isinstance(b, np.ndarray):
        a, b = np.asarray(a), np.asarray(b)
        if a.shape != b.shape:
            return False
        return S.eq(a, b)
    if a is None or b is None or isinstance(a, (str, bool)) or isinstance(b, (str, bool)):
        return a == b
    return S.eq(a, b)
