"""C05 -- computed Wasserstein distances behave like an optimal-transport cost (partial).

Decided here, for EVERY flux (hence for whichever flux an iteration returns; C04 shows the
returned distance is the cost of the returned, mass-conserving flux):
  * cost(-u) = cost(u) (swap of source and destination), cost(c u) = c cost(u) for c > 0 and
    for a constant cell weight -- through the real transport_density / face_to_cell /
    cell_weighted_flux / l1_dissipation and the real quadrature tables (exact literals);
  * first-moment bound cost(u) >= |sum_c x_c (div u)_c| per Cartesian component;
  * uniqueness of the mass-conserving flux on 1-D and one-cell-thin grids, with its closed form;
  * the unified front-end returns what the back-end it dispatches to returns;
  * the OpenCV back-end: signatures in physical units, result = cv2.EMD x mass x cell volume,
    linear scaling -- with cv2.EMD as an uninterpreted function.
NOT claimed (outside this family): optimality of the iteration (zero for identical inputs through
the solver, comparison with a brute-force minimum, non-converged runs) and cv2.EMD itself.
"""
import itertools

import numpy as np

from symx import api as S
from . import oracles as O

PROPERTY = "C05"
OPTIONS = dict(validate=8, query_timeout_ms=60000, path_wall_s=600)
STUBS = [
    "np.linalg.norm = uninterpreted function N with the facts N >= 0, N >= |v_i|, N(-v) = N(v), N(c v) = c N(v) (c > 0); each fact is discharged separately as a lemma about sqrt(sum v_i^2)",
    "cv2.EMD = an unconstrained value; the signatures handed to it are compared instead (equal signatures give equal answers)",
    "solver classes replaced by recording probes for the dispatch claim",
]
OUTSIDE = ["optimality of the computed flux: zero distance for identical inputs through the iteration, brute-force minimum, non-converged runs", "cv2.EMD itself (single-cell moves, symmetry of OpenCV's solver)"]
ASSUMPTIONS = ["quadrature tables enter as the exact rationals of their double values (their exactness is C15); the moment bound carries an absolute slack of 1e-12 * sum|u_f| for their rounding", "voxel sizes 1/2, 1/4, 2 (exact)"]

VOX = [0.5, 0.25, 2.0]
MODES = ["RAVIART_THOMAS", "CONSTANT_SUBCELL_PROJECTION", "CONSTANT_CELL_PROJECTION"]


def bounds(tier):
    if tier == "quick":
        return "cost laws and moment bound: grids (3,), (2,2), (1,3), (2,1,2) for all three L1 modes (Raviart-Thomas on <= 3 cells); uniqueness: all 1-D grids up to 8 cells and n x 1 / 1 x n (x 1) up to 6; EMD on 2x2 and 2x3 images; dispatch over 7 method strings"
    return "cost laws: additionally (3,2), (3,3), (2,2,2), (2,2,1) for the cell mode, (3,2), (2,2,1) for the sub-cell mode and (2,2,1) for Raviart-Thomas; uniqueness: 1-D up to 40 cells, thin grids up to 12; thin-grid solver runs and mobility lemmas on more shapes"


def configs(tier):
    out = []
    q = tier == "quick"
    shapes = [[3], [2, 2], [1, 3], [2, 1, 2]] + ([] if q else [[3, 2], [3, 3], [2, 2, 2], [2, 2, 1]])
    for shape in shapes:
        for mode in MODES:
            if mode == "RAVIART_THOMAS" and int(np.prod(shape)) > (3 if q else 4):
                continue  # (3,2) with the 9-point rule: the only path runs beyond the 600 s wall (probed)
            if mode == "CONSTANT_SUBCELL_PROJECTION" and int(np.prod(shape)) > 6:
                continue  # (3,3) and (2,2,2): same
            if not (mode == "RAVIART_THOMAS" and shape == [2, 2]):  # the laws query on (2,2) with the 4-point rule runs beyond the 600 s wall
                out.append(dict(kind="laws", shape=shape, mode=mode))
            out.append(dict(kind="moment", shape=shape, mode=mode))
    for k in (1, 2, 3):
        out.append(dict(kind="norm_lemmas", k=k))
    thin = [[n] for n in range(2, 9 if q else 41)] + [[n, 1] for n in range(2, 7 if q else 13)] + [[1, n] for n in range(2, 7 if q else 13)] + [[1, n, 1] for n in (2, 3, 5)] + [[1, 1, 4]]
    for shape in thin:
        out.append(dict(kind="unique", shape=shape))
    for m in ("newton", "Newton", "NEWTON", "bregman", "Bregman", "cv2.emd", "CV2.EMD", "sinkhorn"):
        out.append(dict(kind="dispatch", method=m))
    for shape in ([2, 2], [2, 3]):
        out.append(dict(kind="emd", shape=shape))
    # the mobility (face weight) routine the iterations call: linear in a constant cell weight, even in the flux
    for shape in ([[3], [2, 2], [2, 1, 2]] if q else [[3], [4], [2, 2], [3, 2], [1, 3], [2, 1, 2], [2, 2, 2]]):
        for mob in ("CELL_BASED", "CELL_BASED_ARITHMETIC", "CELL_BASED_HARMONIC", "SUBCELL_BASED", "FACE_BASED"):
            if mob == "SUBCELL_BASED" and len(shape) > 1:
                continue  # 2^dim sub-cell norms per face under a harmonic mean: queries beyond 600 s in 2-D (probed)
            out.append(dict(kind="mobility", shape=shape, mobility=mob, mode="CONSTANT_CELL_PROJECTION"))
    # one-cell-thin grids through the real iterations: every method and mobility option returns the cost of the
    # unique mass-conserving flux (concrete masses, symbolic tolerances -> every stopping branch)
    for shape in ([[3], [3, 1], [1, 3], [1, 3, 1]] if q else [[2], [3], [5], [3, 1], [1, 3], [4, 1], [1, 3, 1], [3, 1, 1], [1, 1, 3]]):
        for method in ("newton", "bregman"):
            for mob in ("CELL_BASED", "CELL_BASED_ARITHMETIC", "CELL_BASED_HARMONIC", "SUBCELL_BASED", "FACE_BASED"):
                out.append(dict(kind="thin_solver", shape=shape, method=method, mobility=mob, draw=0))
    # the unified front-end called twice in one process on images of equal shape but other physical size
    for shape in ([[3, 1], [1, 3]] if q else [[3], [3, 1], [1, 3], [1, 3, 1]]):
        for method in ("newton", "bregman"):
            out.append(dict(kind="frontend_history", shape=shape, method=method))
    # identical distributions through the real iterations (the mass difference cancels symbolically)
    for shape in ([[3], [2, 2]] if q else [[3], [2, 2], [3, 2], [2, 1, 2]]):
        for method in ("newton", "bregman"):
            out.append(dict(kind="identical", shape=shape, method=method))
    return out


def validate_filter(cfg):
    return cfg["kind"] in ("laws", "moment", "unique", "dispatch", "mobility", "identical", "thin_solver", "frontend_history")


def validate_always(cfg):
    return cfg["kind"] == "emd"  # single-cell moves through real OpenCV are evaluated on the plain import


CALLS = []
RET = []


def _install_norm():
    import z3

    from symx.core import ENGINE, SymReal, rat, rterm

    fns = {}
    del CALLS[:]

    def hook(x, ord, axis):
        def one(vec):
            args = [z3.simplify(rterm(e), som=True) for e in vec]
            if ENGINE.const_mode or all(z3.is_rational_value(a) for a in args):
                import math
                from fractions import Fraction

                if all(z3.is_rational_value(a) for a in args):
                    return S.const(math.sqrt(sum(float(Fraction(a.numerator_as_long(), a.denominator_as_long())) ** 2 for a in args)))
            k = len(args)
            if k not in fns:
                fns[k] = z3.Function(f"norm{k}", *([z3.RealSort()] * k), z3.RealSort())
            y = fns[k](*args)
            ENGINE.add(y >= 0)
            for a in args:
                ENGINE.add(z3.And(y >= a, y >= -a))
            nz = [a for a in args if not (z3.is_rational_value(a) and a.numerator_as_long() == 0)]
            if len(nz) == 1:
                # a vector along one axis: its norm is the absolute value (lemma norm_of_axis_aligned_vector)
                ENGINE.add(y == z3.If(nz[0] >= 0, nz[0], -nz[0]))
            CALLS.append((args, y))
            return SymReal(y)

        x = np.asarray(x, dtype=object)
        if axis is None:
            return one(list(x.ravel()))
        xs = np.moveaxis(x, axis, -1)
        out = np.empty(xs.shape[:-1], dtype=object)
        for idx in np.ndindex(*xs.shape[:-1]):
            out[idx] = one(list(xs[idx]))
        return out

    ENGINE.abstract_norm = True
    ENGINE.norm_hook = hook


def prepare(cfg):
    if S.instrumented():
        from symx.core import ENGINE

        ENGINE.exact_literals = False
        ENGINE.abstract_norm = False
        ENGINE.norm_hook = None


def _solver(darsia, shape, mode, weight=None):
    import darsia.measure.wasserstein as ws

    grid = darsia.Grid(tuple(shape), VOX[: len(shape)])
    w1 = ws.WassersteinDistanceNewton(grid, weight, {"formulation": "full", "linear_solver": "direct", "l1_mode": getattr(ws.L1Mode, mode)})
    return grid, w1


def _relate(calls_p, calls_q, c=None):
    """instances of the norm facts N(-v) = N(v) / N(c v) = c N(v), index-paired between two evaluations"""
    import z3

    from symx.core import ENGINE, term

    for (ap, yp), (aq, yq) in zip(calls_p, calls_q):
        if c is None:
            ENGINE.add(z3.Implies(z3.And(*[x == -y for x, y in zip(aq, ap)]), yq == yp))
        else:
            ct = term(c)
            ENGINE.add(z3.Implies(z3.And(*[x == ct * y for x, y in zip(aq, ap)]), yq == ct * yp))


def install_stubs():
    import darsia.measure.wasserstein as ws
    import darsia.utils.fv as fv
    from . import c04

    c04.install_stubs()  # exact linear solves (numeric on constants), hmean on object arrays
    ws.hmean = fv.hmean


def body_mobility(cfg, darsia):
    """_compute_face_weight with a constant cell weight c versus no weight, and for -u versus u"""
    import darsia.measure.wasserstein as ws

    shape = tuple(cfg["shape"])
    dim = len(shape)
    _install_norm()
    grid = darsia.Grid(shape, VOX[:dim])
    opts = {"formulation": "full", "linear_solver": "direct", "l1_mode": getattr(ws.L1Mode, cfg["mode"]), "mobility_mode": getattr(ws.MobilityMode, cfg["mobility"]), "regularization": 0.0}
    w1 = ws.WassersteinDistanceNewton(grid, None, dict(opts))
    c = S.real("cw", lo="1/10", hi=10)
    dt = object if S.instrumented() else float
    wa = np.empty(shape, dtype=dt)
    wa[...] = c
    wimg = darsia.Image(wa, dimensions=[VOX[m] * shape[m] for m in range(dim)], space_dim=dim, scalar=True)
    wc = ws.WassersteinDistanceNewton(grid, wimg, dict(opts))
    nf = int(grid.num_faces)
    u = S.array("u", nf, lo=-10, hi=10)
    n0 = len(CALLS)
    fw, fwi = w1._compute_face_weight(u)
    n1 = len(CALLS)
    fwn, fwin = w1._compute_face_weight(-u)
    n2 = len(CALLS)
    fwc, fwic = wc._compute_face_weight(u)
    n3 = len(CALLS)
    if S.symbolic():
        import z3

        from symx.core import ENGINE

        _relate(CALLS[n0:n1], CALLS[n1:n2])
        _relate(CALLS[n0:n1], CALLS[n2:n3], c)
        for _, y in CALLS[n0:n3]:
            ENGINE.add(y >= z3.RealVal("1/1000"))  # no vanishing flux norm (the regularisation only guards 0/0)
    else:
        # plain / const: the same precondition on the concrete draw
        dens = w1.transport_density(u, weighted=False, flatten=True)
        if not all(S.tofloat(x) > 1e-3 for x in np.asarray(dens).ravel()):
            raise S.HarnessSkip("vanishing flux norm in this draw")
    S.claim("mobility_and_its_inverse_are_reciprocal", S.eq(fw * fwi, np.ones(nf)))
    S.claim("mobility_is_even_in_the_flux", S.and_(S.eq(fwn, fw), S.eq(fwin, fwi)))
    S.claim("mobility_scales_linearly_with_a_constant_cell_weight", S.and_(S.eq(fwc, c * fw), S.eq(fwic * c, fwi)))
    S.claim("mobility_is_positive", S.and_([S.lt(0, x) for x in fw]))
    S.observe("fw", fw)


def body_thin_solver(cfg, darsia):
    import darsia.measure.wasserstein as ws
    from symx.core import ENGINE

    if S.symbolic():
        ENGINE.const_mode = True
    shape = tuple(cfg["shape"])
    dim = len(shape)
    nc = int(np.prod(shape))
    rng = np.random.default_rng(200 + cfg["draw"] + nc)
    vals = [int(v) for v in rng.integers(-40, 41, size=nc - 1)]
    dt = object if S.instrumented() else float
    f = np.zeros(nc, dtype=dt)
    for i, v in enumerate(vals):
        f[i] = S.const(f"{v}/8")
    f[nc - 1] = S.const(f"{-sum(vals)}/8")
    tr = S.real("tol_residual", lo="1/1000000", hi=2)
    ti = S.real("tol_increment", lo="1/1000000", hi=2)
    td = S.real("tol_distance", lo="1/1000000", hi=2)
    grid = darsia.Grid(shape, VOX[:dim])
    cls = ws.WassersteinDistanceNewton if cfg["method"] == "newton" else ws.WassersteinDistanceBregman
    opts = {"formulation": "full", "linear_solver": "direct", "num_iter": 4, "l1_mode": ws.L1Mode.CONSTANT_CELL_PROJECTION, "mobility_mode": getattr(ws.MobilityMode, cfg["mobility"]), "tol_residual": tr, "tol_increment": ti, "tol_distance": td}
    w1 = cls(grid, None, opts)
    nf = int(grid.num_faces)
    dist, sol, info = w1._solve(f)
    ax = [m for m in range(dim) if shape[m] > 1][0]
    vol = float(np.prod(VOX[:dim]))
    area = float(np.prod([VOX[m] for m in range(dim) if m != ax]))
    ustar, acc = [], 0.0
    for j in range(nf):
        acc = acc + float(vals[j]) / 8
        ustar.append(acc * vol / area)
    cost = 0.0
    for j in range(nc):
        ul = ustar[j - 1] if j > 0 else 0.0
        ur = ustar[j] if j < nf else 0.0
        cost += vol * abs(0.5 * (ul + ur))
    scale = 1 + max(abs(x) for x in ustar)
    eps = S.const(1e-9 * scale)
    ok = [S.and_(S.le(sol[j] - S.const(ustar[j]), eps), S.le(S.const(ustar[j]) - sol[j], eps)) for j in range(nf)]
    S.claim("thin_grid_flux_is_the_unique_mass_conserving_flux", S.and_(ok))
    S.claim("thin_grid_distance_is_the_cost_of_the_unique_flux", S.and_(S.le(dist - S.const(cost), eps), S.le(S.const(cost) - dist, eps)))
    S.observe("dist", dist)


def body_frontend_history(cfg, darsia):
    """wasserstein_distance(...) on a thin grid, after a call on images of the same shape but other extents:
    the value is the cost of the unique flux for the extents of THIS call"""
    from symx.core import ENGINE

    if S.symbolic():
        ENGINE.const_mode = True
    shape = tuple(cfg["shape"])
    dim = len(shape)
    nc = int(np.prod(shape))
    ax = [m for m in range(dim) if shape[m] > 1][0]
    dt = object if S.instrumented() else float

    def run(dims, vals1, vals2):
        def img(vals):
            a = np.empty(shape, dtype=dt)
            for i, idx in enumerate(np.ndindex(*shape)):
                a[idx] = S.const(f"{vals[i]}/8")
            return darsia.Image(a, dimensions=list(dims), space_dim=dim, scalar=True)

        import darsia.measure.wasserstein as ws

        d = darsia.wasserstein_distance(img(vals1), img(vals2), method=cfg["method"], options={"formulation": "full", "linear_solver": "direct", "num_iter": 3, "l1_mode": ws.L1Mode.CONSTANT_CELL_PROJECTION})
        h = [dims[m] / shape[m] for m in range(dim)]
        vol = float(np.prod(h))
        # cells along the only non-trivial axis; np.ndindex order is C order, which is fine for one non-trivial axis
        f = [(a_ - b_) / 8 for a_, b_ in zip(vals1, vals2)]
        area = vol / h[ax]
        u, acc = [], 0.0
        for j in range(nc - 1):
            acc += f[j]
            u.append(acc * vol / area)
        cost = 0.0
        for j in range(nc):
            ul = u[j - 1] if j > 0 else 0.0
            ur = u[j] if j < nc - 1 else 0.0
            cost += vol * abs(0.5 * (ul + ur))
        return d, cost

    m1, m2 = [9, 4, 11], [6, 10, 8]  # equal totals
    d0, c0 = run([1.5, 0.5, 2.0][:dim], m1, m2)
    d1, c1 = run([3.0, 0.25, 0.5][:dim], m2[::-1], m1)
    eps = S.const(1e-9)
    S.claim("first_frontend_call_returns_the_cost_of_the_unique_flux", S.and_(S.le(d0 - S.const(abs(c0)), eps), S.le(S.const(abs(c0)) - d0, eps)))
    S.claim("later_frontend_call_uses_the_geometry_of_its_own_images", S.and_(S.le(d1 - S.const(abs(c1)), eps), S.le(S.const(abs(c1)) - d1, eps)))
    S.observe("d", [d0, d1])


def body_identical(cfg, darsia):
    """d(m, m) = 0 through the real Newton / Bregman iteration, for every mass distribution m"""
    from symx.core import ENGINE

    if S.symbolic():
        ENGINE.const_mode = True  # everything after the cancellation m - m is constant
    shape = tuple(cfg["shape"])
    dim = len(shape)
    m = S.array("m", shape, lo="1/10", hi=10)
    dims = [VOX[k] * shape[k] for k in range(dim)]
    I1 = darsia.Image(m.copy(), dimensions=dims, space_dim=dim, scalar=True)
    I2 = darsia.Image(m.copy(), dimensions=dims, space_dim=dim, scalar=True)
    d = darsia.wasserstein_distance(I1, I2, method=cfg["method"], options={"formulation": "full", "linear_solver": "direct", "num_iter": 3, "tol_residual": 1e-10, "tol_increment": 1e-10, "tol_distance": 1e-10})
    S.claim("distance_between_identical_distributions_is_zero", S.eq(d, 0))
    S.claim("inputs_untouched", S.and_(S.eq(I1.img, m), S.eq(I2.img, m)))
    S.observe("d", d)


def body(cfg):
    import darsia

    k = cfg["kind"]
    if k == "mobility":
        return body_mobility(cfg, darsia)
    if k == "identical":
        return body_identical(cfg, darsia)
    if k == "thin_solver":
        return body_thin_solver(cfg, darsia)
    if k == "frontend_history":
        return body_frontend_history(cfg, darsia)
    if k == "norm_lemmas":
        return body_lemmas(cfg)
    if k == "dispatch":
        return body_dispatch(cfg, darsia)
    if k == "emd":
        return body_emd(cfg, darsia)
    shape = tuple(cfg["shape"])
    dim = len(shape)
    if k == "unique":
        return body_unique(cfg, darsia, shape, dim)
    grid, w1 = _solver(darsia, shape, cfg["mode"])
    nf = int(grid.num_faces)
    u = S.array("u", nf, lo=-10, hi=10)
    if k == "laws":
        if S.instrumented():
            _install_norm()
        L = w1.l1_dissipation(u)
        n0 = len(CALLS)
        Lneg = w1.l1_dissipation(-u)
        n1 = len(CALLS)
        c = S.real("c", lo="1/100", hi=100)
        Lc = w1.l1_dissipation(c * u)
        n2 = len(CALLS)
        if S.symbolic():
            _relate(CALLS[:n0], CALLS[n0:n1])
            _relate(CALLS[:n0], CALLS[n1:n2], c)
        S.claim("cost_is_symmetric_under_swapping_source_and_destination", S.eq(Lneg, L))
        S.claim("cost_scales_linearly_with_the_masses", S.eq(Lc, c * L))
        S.claim("cost_is_nonnegative", S.le(0, L))
        S.claim("cost_of_zero_flux_is_zero", S.eq(w1.l1_dissipation(np.zeros(nf, dtype=object if S.instrumented() else float)), 0))
        # constant cell weight
        cw = S.real("cw", lo="1/10", hi=10)
        dt = object if S.instrumented() else float
        wa = np.empty(shape, dtype=dt)
        wa[...] = cw
        wimg = darsia.Image(wa, dimensions=[VOX[m] * shape[m] for m in range(dim)], space_dim=dim, scalar=True)
        grid2, w2 = _solver(darsia, shape, cfg["mode"], wimg)
        n3 = len(CALLS)
        Lw = w2.l1_dissipation(u)
        n4 = len(CALLS)
        if S.symbolic():
            _relate(CALLS[:n0], CALLS[n3:n4], cw)
        S.claim("cost_scales_linearly_with_a_constant_cell_weight", S.eq(Lw, cw * L))
        S.observe("L", L)
        return
    if k == "moment":
        if S.instrumented():
            _install_norm()
        L = w1.l1_dissipation(u)
        dv = w1.div.dot(u)
        for d in range(dim):
            mom = 0
            for cidx in O.cells(shape):
                xc = S.const((cidx[d] + 0.5) * VOX[d])
                mom = mom + xc * dv[O.cell_id(cidx, shape)]
            slack = 0
            for x in u:
                slack = slack + S.max_(x, -x)
            slack = slack * S.const("1/1000000000000")
            S.claim(f"cost_bounds_first_moment_displacement_axis{d}", S.and_(S.le(mom, L + slack), S.le(-mom, L + slack)))
        S.observe("L", L)
        return


def body_lemmas(cfg):
    """the facts used about np.linalg.norm, for the true Euclidean norm (exact sqrt)"""
    k = cfg["k"]
    v = S.array("v", k, lo=-100, hi=100)
    c = S.real("c", lo="1/100", hi=100)
    if S.instrumented():
        from symx import npx

        n = lambda a: npx.NP.linalg.norm(a, 2)  # noqa: E731  (exact: sqrt of the sum of squares)
    else:
        n = lambda a: float(np.linalg.norm(a, 2))  # noqa: E731
    y = n(v)
    S.claim("norm_is_nonnegative_and_dominates_components", S.and_(S.le(0, y), S.and_([S.and_(S.le(a, y), S.le(-a, y)) for a in v])))
    S.claim("norm_is_even", S.eq(n(-v), y))
    e = np.zeros(k, dtype=object if S.instrumented() else float)
    e[k - 1] = v[0]
    S.claim("norm_of_axis_aligned_vector_is_absolute_value", S.eq(n(e), S.max_(v[0], -v[0])))
    S.claim("norm_is_positively_homogeneous", S.eq(n(c * v), c * y))


def body_unique(cfg, darsia, shape, dim):
    """on 1-D / one-cell-thin grids the mass balance determines the flux: closed form"""
    grid, w1 = _solver(darsia, shape, "CONSTANT_CELL_PROJECTION")
    nf, nc = int(grid.num_faces), int(grid.num_cells)
    dt = object if S.instrumented() else float
    f = np.zeros(nc, dtype=dt)
    fr = S.array("f", nc - 1, lo=-10, hi=10)
    f[: nc - 1] = fr
    tot = 0
    for x in fr:
        tot = tot + x
    f[nc - 1] = -tot
    rhs = w1.mass_matrix_cells.dot(f)
    # closed form: along the only axis with faces, u_j = (sum of the masses of cells 0..j) * volume / face area
    ax = [m for m in range(dim) if shape[m] > 1][0]
    vol = float(np.prod(VOX[:dim]))
    area = float(np.prod([VOX[m] for m in range(dim) if m != ax]))
    ustar = np.zeros(nf, dtype=dt)
    acc = 0
    for j in range(nf):
        acc = acc + f[j]
        ustar[j] = acc * vol / area
    S.claim("closed_form_flux_is_mass_conserving", S.eq(w1.div.dot(ustar), rhs))
    if S.symbolic():
        u = S.fresh("u", nf)
        r = w1.div.dot(u) - rhs
        for ri in r:
            S.add_constraint(S.eq(ri, 0))
        S.claim("mass_balance_leaves_no_freedom", S.eq(u, ustar))
    else:
        D = w1.div.toarray() if hasattr(w1.div, "toarray") else np.asarray(w1.div.todense())
        Df = np.array([[S.tofloat(v) for v in row] for row in np.asarray(D, dtype=object)], dtype=float)
        S.claim("mass_balance_leaves_no_freedom", bool(np.linalg.matrix_rank(Df) == nf))
    S.observe("ustar", ustar)
    # the cost of that unique flux, independently: quadrature of |(1-p) u_left + p u_right| along the axis
    if nc <= 4:
        import darsia.measure.wasserstein as ws

        for mode in MODES:
            g2, w2 = _solver(darsia, shape, mode)
            if S.instrumented():
                _install_norm()
            cost = w2.l1_dissipation(ustar)
            if mode == "RAVIART_THOMAS":
                qp, qw = darsia.quadrature.gauss_reference_cell(dim, "max")
            elif mode == "CONSTANT_SUBCELL_PROJECTION":
                # independent of the library's table: the 2^dim corners of the unit cell, weight 2^-dim each
                qp = [list(c_) for c_ in itertools.product((0.0, 1.0), repeat=dim)]
                qw = [0.5**dim] * len(qp)
            else:
                qp, qw = darsia.quadrature.gauss_reference_cell(dim, 0)
            qp = np.asarray(qp).reshape(len(qw), dim)
            tot = 0
            for cidx in O.cells(shape):
                fr, fl = O.face_right(ax, cidx, shape), O.face_left(ax, cidx, shape)
                ur = ustar[fr] if fr is not None else 0.0
                ul = ustar[fl] if fl is not None else 0.0
                for q_ in range(len(qw)):
                    v_ = (1 - qp[q_, ax]) * ul + qp[q_, ax] * ur
                    tot = tot + qw[q_] * S.max_(v_, -v_)
            S.claim(f"cost_of_the_unique_flux_equals_independent_quadrature_{mode}", S.eq(cost, vol * tot))
            if S.instrumented():
                from symx.core import ENGINE

                ENGINE.abstract_norm = False
                ENGINE.norm_hook = None


def body_dispatch(cfg, darsia):
    import darsia.measure.wasserstein as ws

    rec = []

    def probe(tag):
        class P:
            def __init__(self, *a, **k):
                rec.append((tag, a, k))

            def __call__(self, m1, m2):
                return ("result-of", tag, m1, m2)

        return P

    saved = (ws.WassersteinDistanceNewton, ws.WassersteinDistanceBregman, darsia.EMD)
    ws.WassersteinDistanceNewton, ws.WassersteinDistanceBregman = probe("newton"), probe("bregman")
    darsia.EMD = probe("emd")
    try:
        m1 = darsia.Image(np.zeros((2, 3)), dimensions=[1.0, 2.0], scalar=True)
        m2 = darsia.Image(np.ones((2, 3)), dimensions=[1.0, 2.0], scalar=True)
        opts = {"num_iter": 3}
        pre = lambda x: x  # noqa: E731
        method = cfg["method"]
        try:
            out = ws.wasserstein_distance(m1, m2, method, options=opts, preprocess=pre)
            raised = False
        except NotImplementedError:
            out, raised = None, True
    finally:
        ws.WassersteinDistanceNewton, ws.WassersteinDistanceBregman, darsia.EMD = saved
    want = {"newton": "newton", "bregman": "bregman", "cv2.emd": "emd"}.get(method.lower())
    if want is None:
        S.claim("unknown_method_is_rejected", raised)
        return
    S.claim("documented_method_is_accepted", not raised)
    if raised:
        return
    S.claim("front_end_returns_what_the_back_end_returns", out == ("result-of", want, m1, m2))
    S.claim("exactly_one_back_end_constructed", len(rec) == 1 and rec[0][0] == want)
    if want != "emd":
        tag, a, k = rec[0]
        g = a[0]
        S.claim("back_end_gets_grid_of_the_image_weight_and_options", tuple(g.shape) == (2, 3) and [float(v) for v in g.voxel_size] == [0.5, 2.0 / 3] and a[1] is None and a[2] is opts)
    else:
        S.claim("emd_back_end_gets_the_preprocess", rec[0][1] == (pre,))


def body_emd(cfg, darsia):
    import z3

    import darsia.measure.emd as emd

    shape = tuple(cfg["shape"])
    n = shape[0] * shape[1]
    dims = [S.real("d0", lo="1/10", hi=10), S.real("d1", lo="1/10", hi=10)]
    h = [dims[0] / shape[0], dims[1] / shape[1]]
    a = S.array("a", shape, lo="1/10", hi=10)
    b0 = S.array("b", n - 1, lo="1/10", hi=10)
    # equal total mass: last entry of b fixed by the sum (kept positive by assumption)
    tot_a = 0
    for x in a.ravel():
        tot_a = tot_a + x
    tot_b = 0
    for x in b0:
        tot_b = tot_b + x
    last = tot_a - tot_b
    S.assume(S.le(S.const("1/10"), last))
    b = np.array(list(b0) + [last], dtype=object if S.instrumented() else float).reshape(shape)
    captured = []
    del RET[:]
    real_cv2 = emd.cv2
    if S.instrumented():
        from symx.core import SymReal, rterm

        F = z3.Function("cv2EMD", *([z3.RealSort()] * (6 * n)), z3.RealSort())

        class CV2:
            DIST_L2 = real_cv2.DIST_L2

            def __getattr__(self, nm):
                return getattr(real_cv2, nm)

            @staticmethod
            def EMD(s1, s2, dist):
                captured.append((s1, s2, dist))
                if S.symbolic():
                    r = S.fresh("emd")  # cv2.EMD's answer: unconstrained (equal signatures give equal answers: congruence is mathematics, not code)
                    RET.append(r)
                    return r, None, None
                f1 = np.array([[S.tofloat(v) for v in row] for row in s1], dtype=np.float32)
                f2 = np.array([[S.tofloat(v) for v in row] for row in s2], dtype=np.float32)
                r = S.const(float(real_cv2.EMD(f1, f2, dist)[0]))
                RET.append(r)
                return r, None, None

        emd.cv2 = CV2()
    try:
        I1 = darsia.Image(a.copy(), dimensions=list(dims), scalar=True)
        I2 = darsia.Image(b.copy(), dimensions=list(dims), scalar=True)
        E = darsia.EMD()
        if not S.instrumented():
            # plain import: real OpenCV; the signatures handed to it are captured on the way
            class CapCV2:
                def __getattr__(self, nm):
                    return getattr(real_cv2, nm)

                @staticmethod
                def EMD(s1, s2, dist, *aa, **kk):
                    captured.append((np.array(s1, dtype=float), np.array(s2, dtype=float), dist))
                    return real_cv2.EMD(s1, s2, dist, *aa, **kk)

            emd.cv2 = CapCV2()
            S.set_rtol(1e-5)
            d = E(I1, I2)
            S.claim("emd_leaves_both_images_as_they_were", S.and_(S.eq(I1.img, a), S.eq(I2.img, b)))
            S.claim("emd_is_symmetric_on_the_same_image_objects", S.eq(E(I2, I1), d))
            s1, s2, flag = captured[0]
            ok, cnt = [], 0
            for r in range(shape[0]):
                for c_ in range(shape[1]):
                    ok.append(S.eq(list(s1[cnt]), [a[r, c_] / tot_a, c_ * h[1], r * h[0]]))
                    ok.append(S.eq(list(s2[cnt]), [b[r, c_] / tot_a, c_ * h[1], r * h[0]]))
                    cnt += 1
            S.claim("signatures_carry_normalised_mass_and_physical_coordinates", S.and_(np.shape(s1) == (n, 3), S.and_(ok), flag == real_cv2.DIST_L2))
            d2 = E(darsia.Image(3.0 * a, dimensions=list(dims), scalar=True), darsia.Image(3.0 * b, dimensions=list(dims), scalar=True))
            S.claim("emd_scales_linearly_with_the_masses", S.eq(d2, 3.0 * d))
            # single-cell moves with the real OpenCV solver: mass times Euclidean distance in physical units
            okm = []
            for (r0, c0), (r1, c1) in (((0, 0), (shape[0] - 1, shape[1] - 1)), ((0, shape[1] - 1), (0, 0)), ((shape[0] - 1, 0), (0, 0))):
                p_, q_ = np.zeros(shape), np.zeros(shape)
                p_[r0, c0] = 2.0
                q_[r1, c1] = 2.0
                dm = E(darsia.Image(p_, dimensions=list(dims), scalar=True), darsia.Image(q_, dimensions=list(dims), scalar=True))
                want = 2.0 * h[0] * h[1] * float(np.hypot((r1 - r0) * h[0], (c1 - c0) * h[1]))
                okm.append(S.eq(dm, want))
            S.claim("single_cell_move_costs_mass_times_euclidean_distance", S.and_(okm))
            return
        d = E(I1, I2)
        S.claim("emd_leaves_both_images_as_they_were", S.and_(S.eq(I1.img, a), S.eq(I2.img, b)))
        s1, s2, flag = captured[0]
        ok = []
        cnt = 0
        for r in range(shape[0]):
            for c_ in range(shape[1]):
                ok.append(S.eq(list(s1[cnt]), [a[r, c_] / tot_a, c_ * h[1], r * h[0]]))
                ok.append(S.eq(list(s2[cnt]), [b[r, c_] / tot_a, c_ * h[1], r * h[0]]))
                cnt += 1
        S.claim("signatures_carry_normalised_mass_and_physical_coordinates", S.and_(np.shape(s1) == (n, 3), S.and_(ok), flag == real_cv2.DIST_L2))
        S.claim("distance_is_cv2_emd_times_mass_times_cell_volume", S.eq(d, RET[0] * tot_a * h[0] * h[1]))
        sc = S.real("c", lo="1/10", hi=10)
        d3 = E(darsia.Image(sc * a, dimensions=list(dims), scalar=True), darsia.Image(sc * b, dimensions=list(dims), scalar=True))
        t1, t2, _ = captured[1]
        S.claim("signatures_are_invariant_under_scaling_of_both_masses", S.and_(S.eq(np.asarray(t1, dtype=object), np.asarray(s1, dtype=object)), S.eq(np.asarray(t2, dtype=object), np.asarray(s2, dtype=object))))
        S.claim("scaled_distance_is_cv2_emd_times_scaled_mass_times_cell_volume", S.eq(d3, RET[1] * (sc * tot_a) * h[0] * h[1]))
    finally:
        emd.cv2 = real_cv2
