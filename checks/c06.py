"""C06 -- finite-volume operators obey the discrete divergence theorem.

Real code executed symbolically: Grid.__init__/_setup, FVDivergence, FVMass,
FVTangentialFaceReconstruction, FVFullFaceReconstruction, face_to_cell,
cell_to_face_average.  Symbolic: voxel sizes h_d > 0, every face flux, every cell value,
the evaluation point p in [0,1]^d.  The oracle is closed-form index arithmetic.
"""
import itertools

import numpy as np

from symx import api as S
from . import oracles as O

PROPERTY = "C06"
OPTIONS = dict(validate=8, query_timeout_ms=60000)
STUBS = ["scipy.stats.hmean(x, axis=1) = n / sum(1/x_i) (positive entries)"]
OUTSIDE = ["floating-point rounding", "FVMass(mode='faces', lumping=False) raises NotImplementedError by design"]
ASSUMPTIONS = ["voxel sizes positive; cell values positive for the harmonic mean"]


def bounds(tier):
    if tier == "quick":
        return "all shapes with every extent in 1..3 (1-D, 2-D, 3-D) plus (4,), (5,), (4,2), (2,4); voxel sizes, fluxes, cell fields, evaluation point symbolic and unbounded (h > 0, 0 <= p <= 1)"
    return "all shapes with extents 1..12 (1-D), 1..7 (2-D), 1..5 (3-D): the property's full range; voxel sizes, fluxes, cell fields, evaluation point symbolic"


def configs(tier):
    out = []
    if tier == "quick":
        for dim in (1, 2, 3):
            for shape in itertools.product(range(1, 4), repeat=dim):
                out.append(dict(shape=list(shape)))
        out += [dict(shape=[4]), dict(shape=[5]), dict(shape=[4, 2]), dict(shape=[2, 4])]
        out += [dict(shape=list(sh), history=True) for sh in ((3,), (2, 2), (3, 2), (1, 3), (2, 1, 2), (2, 2, 2))]
        out += [dict(shape=list(sh), caller_array=True) for sh in ((3,), (2, 3), (2, 1, 2))]
    else:
        for n in range(1, 13):
            out.append(dict(shape=[n]))
        for shape in itertools.product(range(1, 8), repeat=2):
            out.append(dict(shape=list(shape)))
        for shape in itertools.product(range(1, 6), repeat=3):
            out.append(dict(shape=list(shape)))
        for dim in (1, 2, 3):
            for shape in itertools.product(range(1, 4), repeat=dim):
                out.append(dict(shape=list(shape), history=True))
                out.append(dict(shape=list(shape), caller_array=True))
    return out


def install_stubs():
    import darsia.utils.fv as fv
    from symx import npx

    real_hmean = fv.hmean

    def hmean(a, axis=0, **k):
        if not npx.has_sym(a):
            return real_hmean(a, axis=axis, **k)
        a = np.asarray(a, dtype=object)
        xs = np.moveaxis(a, axis, -1)
        out = np.empty(xs.shape[:-1], dtype=object)
        for idx in np.ndindex(*xs.shape[:-1]):
            s = 0
            for e in xs[idx]:
                s = s + 1 / e
            out[idx] = len(xs[idx]) / s
        return out

    fv.hmean = hmean


def body(cfg):
    import darsia

    shape = tuple(cfg["shape"])
    dim = len(shape)
    h = [S.real(f"h{d}", lo="1/1000", hi=1000) for d in range(dim)]
    if cfg.get("history"):
        # operators of another grid of the SAME shape but other voxel sizes were built (and used) earlier in this process
        g = [S.real(f"g{d}", lo="1/1000", hi=1000) for d in range(dim)]
        grid0 = darsia.Grid(shape, list(g))
        u0 = S.array("u0", int(grid0.num_faces), lo=-10, hi=10)
        darsia.FVDivergence(grid0).mat.dot(u0)
        darsia.FVMass(grid0, "cells").mat.diagonal()
        darsia.FVMass(grid0, "faces").mat.diagonal()
        darsia.FVFullFaceReconstruction(grid0)(u0)
        darsia.face_to_cell(grid0, u0)
    if cfg.get("caller_array"):
        # voxel sizes handed over as an ndarray that the caller goes on using (here: halves it in place for a finer level)
        hv = np.array(h, dtype=object if S.instrumented() else float)
        grid = darsia.Grid(shape, hv)
        hv *= 0.5
    else:
        grid = darsia.Grid(shape, list(h))
    nc = int(np.prod(shape))
    nf_axis = [O.num_faces_axis(d, shape) for d in range(dim)]
    nf = sum(nf_axis)
    S.claim("face_and_cell_counts", grid.num_cells == nc and grid.num_faces == nf and [int(x) for x in grid.num_faces_per_axis] == nf_axis)
    vol = 1
    for d in range(dim):
        vol = vol * h[d]
    area = []
    for d in range(dim):
        a = 1
        for e in range(dim):
            if e != d:
                a = a * h[e]
        area.append(a)

    u = S.array("u", nf, lo=-10, hi=10)
    q = S.array("q", nc, lo=-10, hi=10)

    # ---- divergence = net outflow per cell
    div = darsia.FVDivergence(grid).mat
    du = div.dot(u)
    S.observe("div_u", du)
    ok = []
    total = 0
    for c in O.cells(shape):
        out = 0
        for d in range(dim):
            fr, fl = O.face_right(d, c, shape), O.face_left(d, c, shape)
            if fr is not None:
                out = out + area[d] * u[fr]
            if fl is not None:
                out = out - area[d] * u[fl]
        ok.append(S.eq(du[O.cell_id(c, shape)], out))
        total = total + du[O.cell_id(c, shape)]
    S.claim("divergence_is_net_outflow", S.and_(ok))
    S.claim("total_divergence_vanishes", S.eq(total, 0))
    # ---- negative adjoint of the face difference
    lhs = 0
    for c in range(nc):
        lhs = lhs + du[c] * q[c]
    rhs = 0
    for d in range(dim):
        for j in O.faces(d, shape):
            f = O.face_id(d, j, shape)
            rhs = rhs + area[d] * u[f] * (q[O.cell_id(O.shift(j, d, 1), shape)] - q[O.cell_id(j, shape)])
    S.claim("divergence_negative_adjoint_of_face_difference", S.eq(lhs, -rhs))
    fd = [None] * nf
    for d in range(dim):
        for j in O.faces(d, shape):
            fd[O.face_id(d, j, shape)] = -area[d] * (q[O.cell_id(O.shift(j, d, 1), shape)] - q[O.cell_id(j, shape)])
    S.claim("divergence_transpose_is_face_difference", S.eq(div.T.dot(q), fd))

    # ---- mass matrices = volume * identity
    Mc = darsia.FVMass(grid, "cells").mat
    S.claim("cell_mass_matrix_is_volume_identity", S.and_(S.eq(Mc.dot(q), [vol * q[c] for c in range(nc)]), S.eq(Mc.diagonal(), [vol] * nc)))
    Mf = darsia.FVMass(grid, "faces").mat
    S.claim("face_mass_matrix_is_volume_identity", S.and_(S.eq(Mf.dot(u), [vol * u[f] for f in range(nf)]), S.eq(Mf.diagonal(), [vol] * nf)))
    S.observe("mass_cells_diag", Mc.diagonal())

    # ---- RT0 reconstruction at an arbitrary point of the reference cell
    p = [S.real(f"p{d}", lo=0, hi=1) for d in range(dim)]
    pt = np.array(p, dtype=object if S.instrumented() else float) if dim > 1 else p[0]
    cf = darsia.face_to_cell(grid, u, pt)
    cf_mid = darsia.face_to_cell(grid, u)
    S.observe("cell_flux", cf)
    ok, okm, okf = [], [], []
    for c in O.cells(shape):
        for d in range(dim):
            fr, fl = O.face_right(d, c, shape), O.face_left(d, c, shape)
            ur = u[fr] if fr is not None else 0
            ul = u[fl] if fl is not None else 0
            ok.append(S.eq(cf[c + (d,)], (1 - p[d]) * ul + p[d] * ur))
            okm.append(S.eq(cf_mid[c + (d,)], (ul + ur) / 2))
    S.claim("rt0_linear_interpolation_between_opposite_faces", S.and_(ok))
    S.claim("rt0_centre_value_is_mean_of_faces", S.and_(okm))
    S.claim("rt0_shape", tuple(cf.shape) == shape + (dim,))
    # face value at the face: p_d = 1 / p_d = 0
    for d in range(dim):
        for side in (0, 1):
            pp = [S.const("1/2")] * dim if dim > 1 else None
            if dim > 1:
                pp = [S.const("1/3") for _ in range(dim)]
                pp[d] = S.const(side)
                ptf = np.array(pp, dtype=object if S.instrumented() else float)
            else:
                ptf = S.const(side)
            cff = darsia.face_to_cell(grid, u, ptf)
            for c in O.cells(shape):
                f = O.face_right(d, c, shape) if side == 1 else O.face_left(d, c, shape)
                okf.append(S.eq(cff[c + (d,)], u[f] if f is not None else 0))
    S.claim("rt0_face_value_at_face_and_zero_on_boundary", S.and_(okf))

    # ---- cell-to-face averages
    qpos = S.array("w", nc, lo="1/100", hi=100)
    fields = {
        "scalar": (lambda a: a.reshape(shape, order="F"), lambda d, c: c),
    }
    def field(kind, arr):
        a = arr.reshape(shape, order="F")
        if kind == "scalar":
            return a, [arr] * dim
        if kind == "scalar1":
            return a.reshape(shape + (1,)), [arr] * dim
        if kind == "vector":
            comps = [arr * (d + 1) for d in range(dim)]
            v = np.stack([cmp.reshape(shape, order="F") for cmp in comps], axis=-1)
            return v, comps
        if kind == "tensor":
            comps = [arr * (d + 2) for d in range(dim)]
            t = np.zeros(shape + (dim, dim), dtype=object if S.instrumented() else float)
            for d in range(dim):
                t[..., d, d] = comps[d].reshape(shape, order="F")
                for e in range(dim):
                    if e != d:
                        t[..., d, e] = (arr * 7).reshape(shape, order="F")
            return t, comps
    kinds = ["scalar", "scalar1", "tensor"] + (["vector"] if dim > 1 else [])
    # NOTE: for dim == 1 a trailing axis of length 1 is "scalar1" and "vector" at once
    for kind in kinds:
        fld, comps = field(kind, qpos)
        for mode in ("arithmetic", "harmonic"):
            fq = darsia.cell_to_face_average(grid, fld, mode)
            ok = []
            for d in range(dim):
                for j in O.faces(d, shape):
                    f = O.face_id(d, j, shape)
                    a = comps[d][O.cell_id(j, shape)]
                    b = comps[d][O.cell_id(O.shift(j, d, 1), shape)]
                    exp = (a + b) / 2 if mode == "arithmetic" else 2 * a * b / (a + b)
                    ok.append(S.eq(fq[f], exp))
            S.claim(f"cell_to_face_{mode}_mean_{kind}", S.and_(S.and_(ok), len(fq) == nf))
            if kind == "scalar":
                S.observe(f"face_avg_{mode}", fq)

    # ---- tangential reconstruction of a constant field on interior faces
    a = [S.real(f"a{d}", lo=-5, hi=5) for d in range(dim)]
    un = np.zeros(nf, dtype=object if S.instrumented() else float)
    for d in range(dim):
        for j in O.faces(d, shape):
            un[O.face_id(d, j, shape)] = a[d]
    R = darsia.FVFullFaceReconstruction(grid)
    full = R(un)
    full_snapshot = full.copy()
    ok = []
    for d in range(dim):
        for f in grid.interior_faces[d]:
            ok.append(S.eq(full[int(f)], a))
        # the normal component is reproduced on every face
        for j in O.faces(d, shape):
            ok.append(S.eq(full[O.face_id(d, j, shape), d], a[d]))
    S.claim("tangential_reconstruction_reproduces_constants_on_interior_faces", S.and_(ok))
    # generic flux: tangential component = mean of the (up to four) orthogonal neighbour faces
    fullu = R(u)  # the SAME operator: its earlier result must survive
    S.claim("earlier_reconstruction_result_is_left_intact_by_a_later_call", S.and_(full is not fullu, S.eq(full, full_snapshot)))
    ok = []
    for d in range(dim):
        for j in O.faces(d, shape):
            f = O.face_id(d, j, shape)
            ok.append(S.eq(fullu[f, d], u[f]))
            for e in range(dim):
                if e == d:
                    continue
                acc = 0
                for cell in (j, O.shift(j, d, 1)):
                    for g in (O.face_left(e, cell, shape), O.face_right(e, cell, shape)):
                        if g is not None:
                            acc = acc + u[g] / 4
                ok.append(S.eq(fullu[f, e], acc))
    S.claim("tangential_component_is_quarter_sum_of_orthogonal_neighbours", S.and_(ok))
    # the tangential operator called directly: list form and concatenated (block-wise stacked) form
    if dim > 1:
        T = darsia.FVTangentialFaceReconstruction(grid)
        lst = T(u, False)
        cat = T(u)
        ok = [len(lst) == dim - 1, tuple(np.shape(cat)) == ((dim - 1) * nf,)]
        if all(ok):
            for d in range(dim):
                perp = [e for e in range(dim) if e != d]
                for j in O.faces(d, shape):
                    f = O.face_id(d, j, shape)
                    for i, e in enumerate(perp):
                        ok.append(S.eq(lst[i][f], fullu[f, e]))
                        ok.append(S.eq(cat[i * nf + f], fullu[f, e]))
        S.claim("tangential_operator_list_and_concatenated_forms_agree_with_full_reconstruction", S.and_(ok))
    S.observe("full_flux", fullu)
