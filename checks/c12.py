"""C12 -- colour balancing recovers exact colour maps and composes correctly.

Real code executed symbolically: White/Color/AffineBalance.find_balance (objective and
parameter plumbing), apply_balance (both), AdaptiveBalance.find_balance / reset.
Symbolic: swatch colours, the ground-truth diagonal / linear / affine map, the optimiser's
answer.  scipy.optimize.minimize is a contract stub:
  * composition claims: ANY vector of the right length (the claim must hold whatever was fitted);
  * recovery claims: a GLOBAL MINIMISER of the objective DarSIA handed over, i.e. a fresh x* with
    objective(x*) <= objective(ground truth) -- the idealised optimiser; Powell's own convergence
    is outside.
"""
import itertools

import numpy as np

from symx import api as S

PROPERTY = "C12"
OPTIONS = dict(validate=8, query_timeout_ms=120000)
STUBS = ["scipy.optimize.minimize = arbitrary result (composition) / exact global minimiser of the given objective (recovery)"]
OUTSIDE = ["that Powell's search converges to the minimiser and to which tolerance", "ColorCorrection.correct_array (colour-checker detection in OpenCV / colour-science)"]
ASSUMPTIONS = ["row-vector convention x -> x A + b (apply_balance)"]

MODES = ["diagonal", "linear", "affine"]
CTX = dict(mode="any", truth=None, calls=[])


def bounds(tier):
    return "staged fits: every ordered %s of modes (diagonal / linear / affine); recovery: White / Color / Affine balance on flat 3x3 and 4x3 swatch sets and a 1x2x3 block (6x3 thorough), ground-truth map and swatches symbolic" % ("pair" if tier == "quick" else "pair, triple and quadruple")


def configs(tier):
    out = []
    for r in ((1, 2) if tier == "quick" else (1, 2, 3, 4)):
        for seq in itertools.product(MODES, repeat=r):
            out.append(dict(kind="stages", seq=list(seq)))
    for cls in ("WhiteBalance", "ColorBalance", "AffineBalance"):
        for sw in ([3], [4], [1, 2], [2, 2]) + (() if tier == "quick" else ([6], [2, 3])):
            out.append(dict(kind="recover", cls=cls, swatches=list(sw)))
    out.append(dict(kind="shortcuts"))
    # swatches held in other dtypes (raw uint8 / uint16 / integer / float32 colours): real optimiser, plain import
    for cls in ("WhiteBalance", "ColorBalance", "AffineBalance"):
        for dt in ("uint8", "uint16", "int64", "float32"):
            out.append(dict(kind="recover_dtype", cls=cls, dtype=dt))
    # fitting never increases the swatch residual relative to the balance it started from (any destinations)
    for cls in ("WhiteBalance", "ColorBalance", "AffineBalance"):
        for start in ("identity", "previous_fit"):
            out.append(dict(kind="residual", cls=cls, start=start))
    return out


def validate_filter(cfg):
    return cfg["kind"] in ("stages", "shortcuts")


def validate_always(cfg):
    return cfg["kind"] == "recover_dtype"  # evaluated on the plain import with the real optimiser


def prepare(cfg):
    S.set_rtol(1e-4 if cfg["kind"] in ("recover", "recover_dtype") else 1e-9)


def install_stubs():
    import darsia.corrections.color.colorbalance as cb

    if getattr(cb.scipy, "_c12_stub", False):
        return
    real = cb.scipy

    class Res:
        pass

    class Opt:
        def __getattr__(self, n):
            return getattr(real.optimize, n)

        @staticmethod
        def minimize(fun, x0, **k):
            x0 = np.asarray(x0)
            CTX["calls"].append(dict(x0=x0.copy(), n=len(x0)))
            r = Res()
            n = len(x0)
            if CTX["mode"] == "any":
                r.x = S.array(f"fit{len(CTX['calls'])}", n, lo=-3, hi=3)
            elif CTX["mode"] == "descent":
                # any answer that is no worse than the starting point DarSIA handed over (what every descent method returns)
                if S.symbolic():
                    r.x = S.fresh("xdesc", n)
                    S.add_constraint(S.le(fun(r.x), fun(np.asarray(x0, dtype=object))))
                    for v in r.x:
                        S.add_constraint(S.and_(S.le(-5, v), S.le(v, 5)))
                else:
                    r.x = np.array(list(x0), dtype=object if S.instrumented() else float)
            else:
                truth = CTX["truth"]
                if S.symbolic():
                    r.x = S.fresh("xmin", n)
                    S.add_constraint(S.le(fun(r.x), fun(truth)))
                else:
                    r.x = np.array(list(truth), dtype=object if S.instrumented() else float)
            r.success = True
            return r

    class SP:
        optimize = Opt()
        _c12_stub = True

        def __getattr__(self, n):
            return getattr(real, n)

    cb.scipy = SP()


def _dt():
    return object if S.instrumented() else float


def body(cfg):
    import darsia
    import darsia.corrections.color.colorbalance as cb

    CTX["calls"] = []
    if cfg["kind"] == "recover_dtype":
        S.claim("configuration_reached", True)
        if S.instrumented():
            return
        dtp = np.dtype(cfg["dtype"])
        rng = np.random.default_rng(11)
        src = (rng.integers(2, 120, size=(4, 3)) * 2).astype(dtp)  # even values: halves stay exact
        A = {"WhiteBalance": np.diag([1.5, 0.5, 1.25]), "ColorBalance": np.array([[1.5, 0.25, 0.0], [0.0, 0.5, 0.25], [0.25, 0.0, 1.25]]), "AffineBalance": np.array([[1.5, 0.25, 0.0], [0.0, 0.5, 0.25], [0.25, 0.0, 1.25]])}[cfg["cls"]]
        b = np.array([0.5, -0.25, 0.75]) if cfg["cls"] == "AffineBalance" else 0.0
        dst = src.astype(float) @ A + b
        keep = src.copy()
        bal = getattr(darsia, cfg["cls"])()
        bal.find_balance(src, dst)
        got = np.asarray(bal.apply_balance(src), dtype=float)
        scale = float(np.max(np.abs(dst)))
        S.claim("fit_on_swatches_of_this_dtype_reproduces_the_destinations", bool(np.max(np.abs(got - dst)) <= 1e-3 * scale))
        S.claim("source_swatches_left_as_they_were", bool(np.array_equal(src, keep) and src.dtype == dtp))
        return
    if cfg["kind"] in ("stages", "shortcuts", "residual") or S.instrumented():
        # the optimiser is a contract stub in every mode for the composition claims (the replay of a
        # counterexample needs the solver's fitted values); recovery claims run real Powell when plain
        install_stubs()
    if cfg["kind"] == "stages":
        CTX["mode"] = "any"
        src = S.array("s", (2, 3), lo=0, hi=1)
        dst = S.array("t", (2, 3), lo=0, hi=1)
        x = S.array("x", (2, 3), lo=0, hi=1)
        ab = darsia.AdaptiveBalance()
        seq = x
        created = []
        fitted_on = []
        seq_src = src
        stage_inputs_ok = []
        orig = {}
        for name in ("WhiteBalance", "ColorBalance", "AffineBalance"):
            orig[name] = getattr(cb, name)

            def mk(base):
                class W(base):
                    def __init__(self):
                        super().__init__()
                        created.append(self)

                    def find_balance(self, s_src, s_dst, *a, **k):
                        fitted_on.append((np.array(s_src, copy=True), np.array(s_dst, copy=True)))
                        return super().find_balance(s_src, s_dst, *a, **k)
                return W
            setattr(cb, name, mk(orig[name]))
        try:
            for m in cfg["seq"]:
                ab.find_balance(src, dst, mode=m)
                # the stage was fitted on the sources as balanced by ALL earlier stages, against the destinations
                s_in, d_in = fitted_on[-1]
                stage_inputs_ok.append(S.and_(np.shape(s_in) == np.shape(seq_src), S.eq(s_in, seq_src) if np.shape(s_in) == np.shape(seq_src) else False, S.eq(d_in, dst)))
                seq = created[-1].apply_balance(seq)
                seq_src = created[-1].apply_balance(seq_src)
        finally:
            for name, v in orig.items():
                setattr(cb, name, v)
        acc = ab.apply_balance(x)
        S.claim("accumulated_balance_equals_sequential_stage_balances", S.eq(acc, seq))
        S.claim("every_stage_is_fitted_on_the_sources_balanced_by_the_earlier_stages", S.and_(stage_inputs_ok))
        S.claim("stage_classes_match_modes", [type(c).__bases__[0].__name__ for c in created] == [{"diagonal": "WhiteBalance", "linear": "ColorBalance", "affine": "AffineBalance"}[m] for m in cfg["seq"]])
        ab.reset()
        S.claim("reset_restores_identity", S.eq(ab.apply_balance(x), x))
        return
    if cfg["kind"] == "residual":
        CTX["mode"] = "any" if cfg["start"] == "previous_fit" else "descent"
        src = S.array("s", (2, 3), lo=0, hi=1)
        dst = S.array("t", (2, 3), lo=0, hi=1)
        bal = getattr(darsia, cfg["cls"])()
        if cfg["start"] == "previous_fit":
            other = S.array("u", (2, 3), lo=0, hi=1)
            bal.find_balance(src, other)  # leaves an arbitrary balance behind (stub: any vector)
            CTX["mode"] = "descent"

        def res():
            d = bal.apply_balance(src) - dst
            tot = 0
            for x in np.asarray(d).ravel():
                tot = tot + x * x
            return tot

        before = res()
        bal.find_balance(src, dst)
        after = res()
        S.claim("fitting_does_not_increase_the_swatch_residual", S.le(after, before))
        S.claim("the_fit_consults_the_optimiser_once", len(CTX["calls"]) == (2 if cfg["start"] == "previous_fit" else 1))
        return
    if cfg["kind"] == "shortcuts":
        # a single stage of the adaptive balance equals the plain class; shortcut functions apply what they fit
        CTX["mode"] = "any"
        src = S.array("s", (2, 3), lo=0, hi=1)
        dst = S.array("t", (2, 3), lo=0, hi=1)
        img = S.array("i", (1, 2, 3), lo=0, hi=1)
        for fn, n in ((darsia.white_balance, 3), (darsia.color_balance, 9), (darsia.affine_balance, 12)) if hasattr(darsia, "white_balance") else ():
            out = fn(img, src, dst)
            S.claim(f"{fn.__name__}_output_shape", tuple(out.shape) == (1, 2, 3))
        wb = darsia.WhiteBalance()
        wb.find_balance(src, dst)
        S.claim("white_balance_is_diagonal", S.and_([S.eq(wb.balance_scaling[i, j], 0) for i in range(3) for j in range(3) if i != j]))
        return
    # ---- recovery of exact maps by an ideal optimiser
    CTX["mode"] = "global"
    sw = tuple(cfg["swatches"]) + (3,)
    # concrete, well-conditioned swatch colours (exact rationals); the colour map is symbolic
    rng = np.random.default_rng(5)
    vals = rng.integers(1, 16, size=int(np.prod(sw))) / 16.0
    src = np.array([S.const(float(v)) for v in vals], dtype=object if S.instrumented() else float).reshape(sw)
    cls = getattr(darsia, cfg["cls"])
    dt = _dt()
    if cfg["cls"] == "WhiteBalance":
        d = S.array("g", 3, lo="1/2", hi=2)
        A = np.zeros((3, 3), dtype=dt)
        for i in range(3):
            A[i, i] = d[i]
        b = None
        truth = d
    else:
        A = S.array("g", (3, 3), lo=-1, hi=2)
        b = S.array("h", 3, lo=-1, hi=1) if cfg["cls"] == "AffineBalance" else None
        truth = np.concatenate([A.ravel(), b]) if b is not None else A.ravel()
    dst = src @ A + (b if b is not None else 0)
    CTX["truth"] = truth
    bal = cls()
    start = bal.apply_balance(src)
    bal.find_balance(src, dst)
    got = bal.apply_balance(src)
    S.claim("ideal_fit_reproduces_the_destination_swatches", S.eq(got, dst))
    # the search starts at the current balance (identity for a new object)
    if not CTX["calls"]:
        return  # plain mode: the real optimiser ran, its start vector is not observable
    x0 = CTX["calls"][-1]["x0"]
    ident = {"WhiteBalance": [1, 1, 1], "ColorBalance": [1, 0, 0, 0, 1, 0, 0, 0, 1], "AffineBalance": [1, 0, 0, 0, 1, 0, 0, 0, 1, 0, 0, 0]}[cfg["cls"]]
    S.claim("search_starts_at_the_current_balance", S.eq(list(x0), ident))
    res0 = np.sum((start - dst) ** 2)
    res1 = np.sum((got - dst) ** 2)
    S.claim("fit_does_not_increase_the_residual", S.le(res1, res0))
