#!/bin/sh
# usage: tools/run_all.sh [tier] [extra args]  -- runs every claimed check, prints one summary line each; logs in /tmp/all_<ID>.log
tier="${1:-quick}"; shift
cd /verif
for id in $(python3 -c "import json;print(' '.join(c['property_id'] if 'property_id' in c else c['id'] for c in json.load(open('MANIFEST.json'))['checks']))" 2>/dev/null || echo C01 C02 C03 C04 C05 C06 C07 C08 C09 C10 C11 C12 C13 C14 C15 C16 C17 C19 C20); do
  s=$(date +%s); ./check $id --tier $tier "$@" > /tmp/all_$id.log 2>&1; rc=$?
  echo "$id rc=$rc $(( $(date +%s) - s ))s $(grep -c '^KNOWN-FINDING' /tmp/all_$id.log) known; $(tail -1 /tmp/all_$id.log | cut -c1-150)"
done
