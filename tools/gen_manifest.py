#!/usr/bin/env python3
"""Regenerates /verif/MANIFEST.json from the table below (keeps it schema-valid at all times)."""
import json
import os

HERE = os.path.dirname(os.path.dirname(os.path.abspath(__file__)))

# property -> (technique, level text, level note, design ref)
CHECKS = {}


def add(pid, technique, text, note, ref):
    CHECKS[pid] = dict(technique=technique, text=text, note=note, ref=ref)


exec(open(os.path.join(HERE, "tools", "manifest_table.py")).read())

NOT_APPLICABLE = json.load(open(os.path.join(HERE, "tools", "not_applicable.json")))

checks = []
for pid in sorted(CHECKS):
    c = CHECKS[pid]
    checks.append(
        dict(
            property_id=pid,
            quick_cmd=f"./check {pid} --tier quick",
            thorough_cmd=f"./check {pid} --tier thorough",
            evidence_file=f"/verif/evidence/{pid}.json",
            replay_cmd_template=f"./check {pid} --replay {{path}}",
            engine="symx",
            level_claimed=dict(category="model_checking", text=c["text"], design_ref=c["ref"]),
            level_note=c["note"],
            technique=c["technique"],
        )
    )
claimed = set(CHECKS)
na = [x for x in NOT_APPLICABLE if x["property_id"] not in claimed]
manifest = dict(
    version=1,
    setup_cmd="./setup.sh",
    hooks=dict(
        guard="PMGBERGEN_DARSIA_VERIF",
        enable="no source hooks: the real modules are instrumented at import time by /verif/symx/loader.py (AST rewrite in memory); the guard variable is unused",
        baseline_off_cmd="cd /repo && /venv/bin/python -m pytest -ra -q -p no:cacheprovider --timeout=900 --continue-on-collection-errors",
        source_commits=[],
        add_only=True,
    ),
    engines=[
        dict(name="symx", path="/verif/symx", serves_properties=sorted(CHECKS), kind_free_text="bounded symbolic execution of the real numpy code: z3 terms in numpy object arrays, AST-instrumented import regenerated from /repo/src each run, per-path forked children, claims decided by z3 (cvc5 for FP lemmas), counterexamples replayed on the plain import"),
    ],
    checks=checks,
    not_applicable=na,
    notes="All checks are solver-based (z3 / cvc5 via symx, CrossHair where stated). Verdicts are bounded: see each evidence file's coverage.bounds. known_findings.json lists repaired ('fixed') and open findings.",
)
json.dump(manifest, open(os.path.join(HERE, "MANIFEST.json"), "w"), indent=1)
print("MANIFEST.json:", len(checks), "checks,", len(na), "not applicable")
