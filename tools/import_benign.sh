#!/bin/sh
# usage: tools/import_benign.sh B1 ...  -- files behaviour-preserving refactorings produced in /tmp/benign/<B>/ under /verif/benign/
for b in "$@"; do
  for k in 1 2 3; do
    [ -f /tmp/benign/$b/patch_R$k.diff ] || continue
    d=/verif/benign/$b-R$k; mkdir -p $d
    cp /tmp/benign/$b/patch_R$k.diff $d/patch.diff
    cp /tmp/benign/$b/equiv_R$k.py $d/equiv.py 2>/dev/null
    cp /tmp/benign/$b/notes.md $d/agent_notes.md 2>/dev/null
    if cmp -s /tmp/benign/$b/equiv_R$k.before.txt /tmp/benign/$b/equiv_R$k.after.txt; then echo '{"equivalence_digests_identical": true}' > $d/equiv.json; else echo '{"equivalence_digests_identical": false}' > $d/equiv.json; fi
    echo "$b-R$k $(cat $d/equiv.json) $(grep -c '^[+-][^+-]' $d/patch.diff) changed lines"
  done
done
