#!/bin/sh
# usage: tools/wt_run.sh <seed-name> <ID> [check args]  -- runs a check against a scratch worktree of /repo with the seeded change applied (never touches /repo's working tree)
name="$1"; id="$2"; shift 2
wt="/tmp/wtd/$name.$$"; mkdir -p /tmp/wtd
git -C /repo worktree add --detach "$wt" HEAD -q || exit 2
git -C "$wt" apply "/verif/seeded/$name/patch.diff" || { echo "patch does not apply"; git -C /repo worktree remove --force "$wt"; exit 2; }
cd /verif && VERIF_REPO_SRC="$wt/src" ./check "$id" --no-evidence "$@" 2>&1 | grep -v "^  claim=" | cut -c1-400 | tail -${TAIL:-15}
git -C /repo worktree remove --force "$wt"
