#!/usr/bin/env python3
"""Runs behaviour-preserving refactorings (benign/<name>/patch.diff) against the checks that cover the
touched code, each in its own scratch worktree; a check that does not exit 0 on one of them is a
false alarm (or a brittle harness) and has to be corrected.  Writes benign/RESULTS.json.
usage: tools/benign_matrix.py [name ...]"""
import json
import os
import subprocess
import sys
from concurrent.futures import ThreadPoolExecutor

V = "/verif"
CHECKS = {
    "B1": ["C01", "C02", "C17", "C20", "C09", "C19"],
    "B2": ["C03", "C11", "C17"],
    "B3": ["C06", "C07", "C08", "C04", "C05", "C16"],
    "B4": ["C09", "C10", "C12"],
    "B5": ["C13", "C14", "C15"],
    "B6": ["C19", "C16"],
    "B7": ["C18", "C10", "C17", "C02"],
    "B8": ["C04", "C05", "C08", "C16", "C17"],
    "B9": ["C01", "C02", "C17", "C20", "C11", "C03"],
    "B10": ["C13", "C12", "C15", "C14", "C16"],
    "B11": ["C10", "C09", "C11", "C03", "C06", "C17"],
}


def run(name):
    d = f"{V}/benign/{name}"
    wt = f"/tmp/wtn/{name}"
    subprocess.run(["rm", "-rf", wt])
    os.makedirs("/tmp/wtn", exist_ok=True)
    subprocess.run(["git", "-C", "/repo", "worktree", "prune"], capture_output=True)
    subprocess.run(["git", "-C", "/repo", "worktree", "add", "--detach", wt, "HEAD", "-q"], capture_output=True, text=True)
    res = dict(name=name, applies=False, checks={})
    try:
        a = subprocess.run(["git", "-C", wt, "apply", f"{d}/patch.diff"], capture_output=True, text=True)
        res["applies"] = a.returncode == 0
        if not res["applies"]:
            res["apply_error"] = a.stderr[-300:]
            return res
        for chk in CHECKS[name.split("-")[0]]:
            env = dict(os.environ, VERIF_REPO_SRC=f"{wt}/src")
            p = subprocess.run([f"{V}/check", chk, "--no-evidence"], capture_output=True, text=True, env=env, cwd=V, timeout=3000)
            lines = [ln for ln in p.stdout.splitlines() if not ln.startswith("  claim=")]
            res["checks"][chk] = dict(exit=p.returncode, silent=(p.returncode == 0), tail=[ln[:300] for ln in lines if ln.startswith(("VIOLATION", "HARNESS", "INCONCL"))][:4])
    finally:
        subprocess.run(["git", "-C", "/repo", "worktree", "remove", "--force", wt], capture_output=True)
    return res


def main():
    names = sys.argv[1:] or sorted(n for n in os.listdir(f"{V}/benign") if os.path.isdir(f"{V}/benign/{n}"))
    out = {}
    with ThreadPoolExecutor(max_workers=2) as ex:
        for res in ex.map(run, names):
            out[res["name"]] = res
            print(res["name"], "applies" if res["applies"] else "DOES NOT APPLY", {k: v["exit"] for k, v in res["checks"].items()}, flush=True)
            for k, v in res["checks"].items():
                for ln in v["tail"]:
                    print("   ", k, ln[:250], flush=True)
    path = f"{V}/benign/RESULTS.json"
    old = json.load(open(path)) if os.path.exists(path) else {}
    old.update(out)
    json.dump(old, open(path, "w"), indent=1)


if __name__ == "__main__":
    main()
