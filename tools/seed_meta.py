#!/usr/bin/env python3
"""Writes seeded/<name>/meta.json from the confirmation logs, the check matrix and the summaries below."""
import json
import os

V = "/verif"
SUM = {
 "C01-A": ("Voxel.__new__ casts with astype(int) again (truncation toward zero)", "a negative (out-of-range) voxel index through the typed VoxelCenter/float -> Voxel route"),
 "C01-B": ("CoordinateSystem.voxel snaps positions within np.isclose of an integer before flooring", "large indices: voxel centres of odd indices >= ~50000, or interior points at relative position 0.999 for indices >= ~100"),
 "C02-A": ("Image.subregion reorders the Cartesian extents by plain reversal instead of interpret_indexing", "a 3-D image and a sub-box whose j and k physical extents differ"),
 "C02-B": ("Image.set_time (series) measures relative times from date[0] instead of reference_date", "dated single images sharing an explicit reference_date different from the first date, assembled by stack/append without offset"),
 "C03-A": ("Geometry.integrate rewrites the scalar cached volume only when the resolution differs", "a coarser/finer integrate() call followed by a native-resolution call on the same object"),
 "C03-B": ("array voxel volumes resized with INTER_LINEAR when the data is finer than the geometry", "2-D geometry with spatially varying weights and integer-refined data"),
 "C04-A": ("Bregman reuses the initial Darcy factorisation when isclose(L, L_init)", "Bregman + pressure formulation + L == L_init != 1"),
 "C04-B": ("face_to_cell 3-D branch weights the lower axis-2 face with (1 - pt[1])", "3-D grid with >1 cell along axes 1 and 2 and an off-centre L1 mode"),
 "C05-A": ("Bregman always passes reuse_solver=True", "Bregman + L != 1 + pressure formulation (stale factorisation: flux not mass conserving)"),
 "C05-B": ("face_to_cell 3-D copy/paste index (same site as C04-B)", "3-D, RAVIART_THOMAS or sub-cell mode, cells with two axis-2 faces (e.g. 1x1x8)"),
 "C06-A": ("face_to_cell 3-D branch uses (1 - pt[1]) for the lower axis-2 face", "3-D grid, >=2 cells along axis 2, evaluation point with pt[1] != pt[2]"),
 "C06-B": ("cell_to_face_average flattens tensor diagonals without order='F'", "tensor-valued cell quantity on a grid with two non-singleton axes"),
 "C07-A": ("one entry of the 3-D corner table (faces[1], side 1, slot 3) is 7 instead of 5", "3-D grids with shape[1] >= 2"),
 "C07-B": ("reverse_connectivity filled by a vectorised pass that derives the axis from index strides", "a single-cell axis that is not the last axis, e.g. (1,n), (m,1,n)"),
 "C08-A": ("eliminate_lagrange_multiplier aliases the cached index array (missing .copy())", "pressure formulation + direct back-end + grid with two axes + a second system on the same object (SuperLU sorts the aliased indices in place)"),
 "C08-B": ("multiplier recovered from the original instead of the flux-eliminated right-hand side", "pressure formulation with a non-zero flux block next to the pinned cell"),
 "C09-A": ("3-D inverse rotation accumulated in forward order", "dim 3 and at least two non-zero angles"),
 "C09-B": ("validity mask of the pull-back warp bounded by the destination shape", "source and destination systems of different shape"),
 "C10-A": ("TransformationCorrection caches and reuses its output array", "a series with different time slices, or two results of one correction held at once"),
 "C10-B": ("series branch of BaseCorrection.__call__ allocates the output with the input dtype", "a series and a dtype-changing correction (TypeCorrection(float) on uint8, rotation on integers)"),
 "C11-A": ("superpose computes the source corner points once from the first image", "a later image with a different shape than the first"),
 "C11-B": ("uniform_refinement repeats by 2*levels instead of 2**levels", "refinement level 3 (levels 0..2 and all coarsening unchanged)"),
 "C12-A": ("AdaptiveBalance transforms the accumulated translation only for affine stages", "a diagonal or linear stage after an affine stage with non-zero translation"),
 "C12-B": ("WhiteBalance objective flattens destination swatches with order='F'", "a genuine 2-D swatch layout such as 4x6x3 (2x2x3 in the check)"),
 "C13-A": ("cleaning filter initialised from the first extra baseline instead of zeros", "diff option 'plain', extra baselines, pixels where the extra baselines are darker than the first"),
 "C13-B": ("model-before-restoration branch converts clean_signal instead of balanced_signal", "'restoration -> model': False together with a non-identity balancing stage"),
 "C14-A": ("heterogeneous model resizes labels from its cache instead of the original labels", "a call at another resolution followed by a call at the label resolution on one model object"),
 "C14-B": ("kernel matrix filled only above the diagonal and mirrored (diagonal stays 1)", "a kernel with k(x,x) != 1: LinearKernel"),
 "C15-A": ("1-D 5-point rule: node table sorted, weights left on the wrong nodes", "dim 1, order 4 / 'max', monomials of degree >= 2"),
 "C15-B": ("corner rule weights built with 2*dim instead of 2**dim entries", "dim 3"),
 "C16-A": ("MG.update_params does not pass array-valued coefficients to the smoother", "array-valued coefficients at construction and changed coefficients on the second call"),
 "C16-B": ("AndersonAcceleration.reset reallocates its history only when the problem size changes", "restart not a multiple of depth (depth 2 / restart 3) and at least one restart crossed"),
 "C17-A": ("Image.__init__ keeps the caller's list when dimensions is already a list", "a list passed as dimensions together with a height/width/depth override"),
 "C17-B": ("stack builds its working image with type(img)(img=..., **metadata()) (shares the date list)", "the first list entry already a series, a later entry a single slice"),
 "C19-A": ("relative_rois_without_overlap tests rois[i][j][k].start == 0 instead of i == 0", "patches exactly one voxel wide along an axis and positive overlap"),
 "C19-B": ("top-right corner y uses patch_dimensions_metric[1]", "patch row i >= 1 and patches that are not square in physical units"),
 "C20-A": ("CoordinateSystem.voxel gathers with the axis permutation instead of scattering", "any 3-D image (the permutation is a 3-cycle only there)"),
 "C20-B": ("AxisReduction interprets an integer axis in 'ijk' instead of 'xyz'", "axis addressed by matrix index on an image with a non-default origin"),
}
res = json.load(open(f"{V}/seeded/RESULTS.json")) if os.path.exists(f"{V}/seeded/RESULTS.json") else {}
for name, (what, needs) in sorted(SUM.items()):
    d = f"{V}/seeded/{name}"
    if not os.path.isdir(d):
        print("missing", name)
        continue
    conf = json.load(open(f"{d}/confirm.json")) if os.path.exists(f"{d}/confirm.json") else {}
    r = res.get(name, {})
    meta = dict(
        name=name,
        breaks_property=name[:3],
        change=what,
        needs_to_manifest=needs,
        produced_by="independent sub-agent given only the property text and a scratch worktree",
        confirmed_by_me=dict(
            how="tools/confirm_seed.sh: scratch worktree of /repo HEAD; demo without the patch, demo with the patch, tests/unit with the patch",
            demo_without_exit=conf.get("demo_without_exit"), demo_with_exit=conf.get("demo_with_exit"), unit_suite_with_patch_exit=conf.get("suite_with_exit"),
            unit_suite_summary=open(f"{d}/suite_with.summary").read().strip() if os.path.exists(f"{d}/suite_with.summary") else None,
        ),
        checks_run=r.get("checks", {}),
        detected_by=[k for k, v in r.get("checks", {}).items() if v.get("detected")],
        applies_to_head=r.get("applies"),
    )
    json.dump(meta, open(f"{d}/meta.json", "w"), indent=1)
print("meta written for", len(SUM))
