#!/usr/bin/env python3
"""Writes seeded/<name>/meta.json from the confirmation logs, the check matrix and the summaries below."""
import json
import os

V = "/verif"
SUM = {
 "C01-A": ("Voxel.__new__ casts with astype(int) again (truncation toward zero)", "a negative (out-of-range) voxel index through the typed VoxelCenter/float -> Voxel route"),
 "C01-B": ("CoordinateSystem.voxel snaps positions within np.isclose of an integer before flooring", "large indices: voxel centres of odd indices >= ~50000, or interior points at relative position 0.999 for indices >= ~100"),
 "C02-A": ("Image.subregion reorders the Cartesian extents by plain reversal instead of interpret_indexing", "a 3-D image and a sub-box whose j and k physical extents differ"),
 "C02-B": ("Image.set_time (series) measures relative times from date[0] instead of reference_date", "dated single images sharing an explicit reference_date different from the first date, assembled by stack/append without offset"),
 "C03-A": ("Geometry.integrate rewrites the scalar cached volume only when the resolution differs", "a coarser/finer integrate() call followed by a native-resolution call on the same object"),
 "C03-B": ("array voxel volumes resized with INTER_LINEAR when the data is finer than the geometry", "2-D geometry with spatially varying weights and integer-refined data"),
 "C04-A": ("Bregman reuses the initial Darcy factorisation when isclose(L, L_init)", "Bregman + pressure formulation + L == L_init != 1"),
 "C04-B": ("face_to_cell 3-D branch weights the lower axis-2 face with (1 - pt[1])", "3-D grid with >1 cell along axes 1 and 2 and an off-centre L1 mode"),
 "C05-A": ("Bregman always passes reuse_solver=True", "Bregman + L != 1 + pressure formulation (stale factorisation: flux not mass conserving)"),
 "C05-B": ("face_to_cell 3-D copy/paste index (same site as C04-B)", "3-D, RAVIART_THOMAS or sub-cell mode, cells with two axis-2 faces (e.g. 1x1x8)"),
 "C06-A": ("face_to_cell 3-D branch uses (1 - pt[1]) for the lower axis-2 face", "3-D grid, >=2 cells along axis 2, evaluation point with pt[1] != pt[2]"),
 "C06-B": ("cell_to_face_average flattens tensor diagonals without order='F'", "tensor-valued cell quantity on a grid with two non-singleton axes"),
 "C07-A": ("one entry of the 3-D corner table (faces[1], side 1, slot 3) is 7 instead of 5", "3-D grids with shape[1] >= 2"),
 "C07-B": ("reverse_connectivity filled by a vectorised pass that derives the axis from index strides", "a single-cell axis that is not the last axis, e.g. (1,n), (m,1,n)"),
 "C08-A": ("eliminate_lagrange_multiplier aliases the cached index array (missing .copy())", "pressure formulation + direct back-end + grid with two axes + a second system on the same object (SuperLU sorts the aliased indices in place)"),
 "C08-B": ("multiplier recovered from the original instead of the flux-eliminated right-hand side", "pressure formulation with a non-zero flux block next to the pinned cell"),
 "C09-A": ("3-D inverse rotation accumulated in forward order", "dim 3 and at least two non-zero angles"),
 "C09-B": ("validity mask of the pull-back warp bounded by the destination shape", "source and destination systems of different shape"),
 "C10-A": ("TransformationCorrection caches and reuses its output array", "a series with different time slices, or two results of one correction held at once"),
 "C10-B": ("series branch of BaseCorrection.__call__ allocates the output with the input dtype", "a series and a dtype-changing correction (TypeCorrection(float) on uint8, rotation on integers)"),
 "C11-A": ("superpose computes the source corner points once from the first image", "a later image with a different shape than the first"),
 "C11-B": ("uniform_refinement repeats by 2*levels instead of 2**levels", "refinement level 3 (levels 0..2 and all coarsening unchanged)"),
 "C12-A": ("AdaptiveBalance transforms the accumulated translation only for affine stages", "a diagonal or linear stage after an affine stage with non-zero translation"),
 "C12-B": ("WhiteBalance objective flattens destination swatches with order='F'", "a genuine 2-D swatch layout such as 4x6x3 (2x2x3 in the check)"),
 "C13-A": ("cleaning filter initialised from the first extra baseline instead of zeros", "diff option 'plain', extra baselines, pixels where the extra baselines are darker than the first"),
 "C13-B": ("model-before-restoration branch converts clean_signal instead of balanced_signal", "'restoration -> model': False together with a non-identity balancing stage"),
 "C14-A": ("heterogeneous model resizes labels from its cache instead of the original labels", "a call at another resolution followed by a call at the label resolution on one model object"),
 "C14-B": ("kernel matrix filled only above the diagonal and mirrored (diagonal stays 1)", "a kernel with k(x,x) != 1: LinearKernel"),
 "C15-A": ("1-D 5-point rule: node table sorted, weights left on the wrong nodes", "dim 1, order 4 / 'max', monomials of degree >= 2"),
 "C15-B": ("corner rule weights built with 2*dim instead of 2**dim entries", "dim 3"),
 "C16-A": ("MG.update_params does not pass array-valued coefficients to the smoother", "array-valued coefficients at construction and changed coefficients on the second call"),
 "C16-B": ("AndersonAcceleration.reset reallocates its history only when the problem size changes", "restart not a multiple of depth (depth 2 / restart 3) and at least one restart crossed"),
 "C17-A": ("Image.__init__ keeps the caller's list when dimensions is already a list", "a list passed as dimensions together with a height/width/depth override"),
 "C17-B": ("stack builds its working image with type(img)(img=..., **metadata()) (shares the date list)", "the first list entry already a series, a later entry a single slice"),
 "C19-A": ("relative_rois_without_overlap tests rois[i][j][k].start == 0 instead of i == 0", "patches exactly one voxel wide along an axis and positive overlap"),
 "C19-B": ("top-right corner y uses patch_dimensions_metric[1]", "patch row i >= 1 and patches that are not square in physical units"),
 "C20-A": ("CoordinateSystem.voxel gathers with the axis permutation instead of scattering", "any 3-D image (the permutation is a 3-cycle only there)"),
 "C20-B": ("AxisReduction interprets an integer axis in 'ijk' instead of 'xyz'", "axis addressed by matrix index on an image with a non-default origin"),
 # ---- round 2 (agents were told what round 1 had produced and asked for something different / harder to notice)
 "C01r2-A": ("CoordinateSystem.__init__ assigns voxel sizes to Cartesian axes by plain reversal", "3-D image whose 2nd and 3rd matrix axes have different voxel sizes"),
 "C01r2-B": ("Image.opposite_corner computed in place on np.array(origin): integer-typed origin truncates", "integer-typed (default or user) origin together with a fractional dimension"),
 "C02r2-A": ("subregion: upper clip of a physical (CoordinateArray) box is num_voxels-1", "physical box touching or exceeding the far border"),
 "C02r2-B": ("Image.append tests 'not offset' instead of 'offset is None'", "append with offset exactly 0 on images with relative times but no dates"),
 "C03r2-A": ("darsia.weight uses np.kron instead of np.outer for array weights", "normalising an image that is both a series and non-scalar"),
 "C03r2-B": ("array volume cache coarsened from the previous cache instead of the native volume", "coarsening by 2 followed by coarsening by 3 (not nested) on one geometry object with array weights"),
 "C04r2-A": ("Newton: distance evaluated before the Anderson mixing step", "Newton, aa_depth > 0, at least two iterations"),
 "C04r2-B": ("Bregman stopping test uses the signed distance increment", "Bregman, distance decreasing in an iteration >= 2 while the other criteria are met"),
 "C05r2-A": ("EMD._img_to_sig swaps the voxel sizes of the two axes", "cv2 back-end with anisotropic voxels and a non-diagonal move"),
 "C05r2-B": ("FACE_BASED mobility: weight / |weight*flux| instead of weight**2 / |weight*flux|", "Bregman + FACE_BASED mobility + constant cell weight != 1 on a grid with freedom"),
 "C12r2-A": ("AdaptiveBalance preconditions the sources with the scaling only (drops the accumulated translation)", "a stage after an affine stage with a real offset"),
 "C12r2-B": ("AdaptiveBalance.reset re-initialises only the scaling", "use with an affine stage, reset, then non-affine stages"),
 "C15r2-A": ("gauss() memoised with lru_cache and gauss_reference_cell normalises its weights in place", "unit-cell variant requested before the reference variant for one (dim, order)"),
 "C15r2-B": ("one sign in the 3-D 27-point node table (node 19)", "dim 3, order 2 / 'max', integrands depending on the second coordinate"),
 "C18-A": ("imread_from_npz drops the stored relative times whenever metadata['date'] is not None", "series with relative times but no dates (date defaults to [None, ...]); dates plus custom times"),
 "C18-B": ("DriftCorrection.return_config stores the ROI as corner points instead of slices", "a ROI together with padding != 0 (padding applied again on load)"),
 "C06r2-A": ("FVDivergence caches the assembled matrix per grid SHAPE (class-level dict)", "a second operator for a grid of the same shape but other voxel sizes in the same process"),
 "C06r2-B": ("FVTangentialFaceReconstruction.__call__ flattens the stacked components in F order", "3-D grid and concatenate=True"),
 "C07r2-A": ("face numbering offset derived from the previous axis' max face index", "3-D shapes with a single-cell middle axis, e.g. (2,1,2)"),
 "C07r2-B": ("exterior_faces from boundary layers without np.unique in 2-D", "2-D grids with a single row or column"),
 "C08r2-A": ("Schur complement cached at set-up and reused when reuse_solver is passed", "the first linear_solve of a fresh object already asks for reuse"),
 "C08r2-B": ("compute_flux_update accumulates into a view of the caller's right-hand side", "the caller reuses its right-hand-side array (second solve, residual check)"),
 "C09r2-A": ("voxel-centre -> voxel conversion casts with astype(int) instead of flooring", "voxel-centre maps with a positive shift (pulled-back centre -0.5 becomes 0)"),
 "C09r2-B": ("AffineTransformation.inverse_array subtracts the translation in place", "float points, non-zero translation, caller reuses its array"),
 "C10r2-A": ("IlluminationCorrection.correct_array drops its defensive copy", "optical time series without overwrite (series branch passes views of the input)"),
 "C10r2-B": ("non-overwrite return path merges metadata with swapped precedence", "corrections that declare metadata updates (dimensions / origin / name)"),
 "C11r2-A": ("Resize caches the conservation factor of its first call", "one Resize object applied to a second image with another voxel count"),
 "C11r2-B": ("AxisReduction 'average' divides by the voxel count of the reversed axis", "3-D, mode average, reduction along x or y with different extents"),
 "C13r2-A": ("_base_collection keeps the unpromoted integer baselines", "integer baselines + extra baselines + diff option other than absolute"),
 "C13r2-B": ("LinearModel gets ScalingModel's isclose(scaling, 1) short-cut and drops the offset", "LinearModel with scaling 1 and a non-zero offset"),
 "C14r2-A": ("LinearKernel.linear_combination adds the shift once after the loop", "LinearKernel(a != 0) with weights that do not sum to 1"),
 "C14r2-B": ("StaticThresholdModel tests 'not threshold_upper' instead of 'is None'", "upper threshold exactly 0.0"),
 "C16r2-A": ("MG.__call__ writes a size-limited depth back to self.depth", "a re-used MG object that solved a small array before a larger one"),
 "C16r2-B": ("module-level cache of divergence / mass matrices keyed by (shape, lumping)", "two Wasserstein solver objects on grids of equal shape but different voxel sizes in one process"),
 "C17r2-A": ("Image.subregion clips the caller's VoxelArray in place", "VoxelArray region of interest partly outside the image"),
 "C17r2-B": ("OpticalImage.to_monochromatic('red'/'green'/'blue') converts the image itself", "image stored as BGR or HSV with a dtype other than float64"),
 "C19r2-A": ("overlap in voxels computed with the voxel size of the other axis", "positive overlap and anisotropic voxels (rel_overlap * aspect > 1)"),
 "C19r2-B": ("column ROI start j*(pv-ov) instead of j*pv-ov", "positive overlap and at least three patch columns"),
 "C20r2-A": ("Image.slice indexes voxel_size (matrix order) with the Cartesian component index", "slice by Cartesian name on anisotropic voxels"),
 "C20r2-B": ("cartesianToMatrixIndexing rewritten as flipud(img.T)", "arrays with trailing colour / time axes"),
}

# what had to be added to the checks before the change was caught ("" = caught by the check as it stood)
STRENGTHENED = {
 "C04-A": "configurations with L / L_init different from 1", "C04-B": "independent RT0-quadrature oracle for the transport density; (1,2,2) grid",
 "C05-A": "still only caught by C04 (stale factorisation = mass balance); C05 decides laws for every flux and cannot see which flux is returned",
 "C05-B": "independent cost oracle on thin grids", "C10-B": "concrete non-float64 dtype configurations", "C11-A": "a raising stub counts as a false claim",
 "C11-B": "refinement level +-3 in the quick tier", "C12-B": "2x2 swatch layout", "C14-A": "call history on one heterogeneous model object",
 "C16-A": "array-valued multigrid coefficients", "C16-B": "claim about iterates after a restart boundary", "C17-B": "stack of a series with a single image",
 "C01r2-B": "engine: assignment into integer arrays truncates (solver-guided case split) instead of ending the path as unsupported",
 "C03r2-A": "normalise on series-of-vector images", "C03r2-B": "histories over coarsenings that are not nested (6 -> 3 -> 2)",
 "C04r2-B": "concolic configurations: concrete masses through the real mobility / cost routines, symbolic tolerances (the abstract counterexamples did not replay)",
 "C05r2-A": "plain-mode replay captures the signatures handed to cv2.EMD (the symbolic counterexample had nothing to replay against); single-cell moves through real OpenCV",
 "C05r2-B": "lemmas about the real mobility routine (_compute_face_weight): linear in a constant cell weight, even in the flux",
 "C06r2-A": "operators of an earlier grid of the same shape but other voxel sizes built first", "C06r2-B": "tangential operator called directly (list and concatenated form)",
 "C08r2-A": "first solve of a fresh object with reuse_solver=True", "C08r2-B": "caller's right-hand-side array compared after the solve and reused for a second solve",
 "C10r2-A": "the real IlluminationCorrection with a symbolic local scaling among the corrections", "C11r2-A": "one Resize object applied to a second image of another size",
 "C12r2-A": "claim: every stage is fitted on the sources balanced by the earlier stages", "C13r2-A": "integer baselines with extra baselines",
 "C13r2-B": "the stage classes the property names (MonochromaticReduction, ScalingModel, LinearModel) instead of uninterpreted stages; C14 caught it as it stood",
 "C15r2-A": "call histories (other variant first; returned arrays scaled by the caller)", "C16r2-A": "one solver object used on arrays of different sizes",
 "C16r2-B": "discretisation of a second Wasserstein solver object on a grid of equal shape and other spacing", "C17r2-A": "VoxelArray / CoordinateArray regions of interest partly outside the image",
 "C17r2-B": "OpticalImage conversions on BGR / HSV data (uint8)", "C19r2-A": "runner: stop scheduling paths of a configuration after 6 paths with counterexamples (the change made the overlap width unbounded; the run took > 40 min)",
 "C20r2-B": "layout helpers on arrays with trailing colour / time axes",
}
res = json.load(open(f"{V}/seeded/RESULTS.json")) if os.path.exists(f"{V}/seeded/RESULTS.json") else {}
for name, (what, needs) in sorted(SUM.items()):
    d = f"{V}/seeded/{name}"
    if not os.path.isdir(d):
        print("missing", name)
        continue
    conf = json.load(open(f"{d}/confirm.json")) if os.path.exists(f"{d}/confirm.json") else {}
    r = res.get(name, {})
    meta = dict(
        name=name,
        breaks_property=name[:3],
        round=2 if "r2" in name else 1,
        change=what,
        needs_to_manifest=needs,
        produced_by="independent sub-agent given only the property text and a scratch worktree",
        confirmed_by_me=dict(
            how="tools/confirm_seed.sh: scratch worktree of /repo HEAD; demo without the patch, demo with the patch, tests/unit with the patch",
            demo_without_exit=conf.get("demo_without_exit"), demo_with_exit=conf.get("demo_with_exit"), unit_suite_with_patch_exit=conf.get("suite_with_exit"),
            unit_suite_summary=open(f"{d}/suite_with.summary").read().strip() if os.path.exists(f"{d}/suite_with.summary") else None,
        ),
        checks_run=r.get("checks", {}),
        detected_by=[k for k, v in r.get("checks", {}).items() if v.get("detected")],
        applies_to_head=r.get("applies"),
        check_strengthened_for_it=STRENGTHENED.get(name, ""),
    )
    json.dump(meta, open(f"{d}/meta.json", "w"), indent=1)
# ---- the matrix as markdown (DESIGN.md section 11 is generated from this)
rows = ["| seeded change | property | what it changes | needs to manifest | caught by | added to the check for it |", "|---|---|---|---|---|---|"]
for name, (what, needs) in sorted(SUM.items()):
    r = res.get(name, {})
    det = ", ".join(k for k, v in r.get("checks", {}).items() if v.get("detected")) or "**missed**"
    notdet = ", ".join(k for k, v in r.get("checks", {}).items() if not v.get("detected"))
    rows.append(f"| {name} | {name[:3]} | {what} | {needs} | {det}{' (not: ' + notdet + ')' if notdet else ''} | {STRENGTHENED.get(name, '')} |")
open(f"{V}/seeded/MATRIX.md", "w").write("\n".join(rows) + "\n")
print("meta written for", len(SUM))
