#!/usr/bin/env python3
"""Runs every seeded change under /verif/seeded against the checks, each in its own scratch worktree
(never in /repo), and writes seeded/<name>/meta.json plus seeded/RESULTS.json.
usage: tools/seed_matrix.py [name ...]"""
import json
import os
import re
import subprocess
import sys
from concurrent.futures import ThreadPoolExecutor

V = "/verif"
EXTRA = {"C01r5-A": ["C20"], "C04r4-B": ["C08"], "C16r3-B": ["C04"], "C11r3-A": ["C17"], "C13r2-B": ["C14"], "C16r2-B": ["C04"], "C20r2-A": ["C02"], "C11r2-B": ["C20"], "C09r2-A": ["C01"], "C05-A": ["C04"], "C05-B": ["C04", "C06"], "C04-B": ["C06"], "C08-A": [], "C15-B": []}


def run(name):
    d = f"{V}/seeded/{name}"
    prop = name[:3]
    wt = f"/tmp/wtm/{name}"
    subprocess.run(["rm", "-rf", wt])
    os.makedirs("/tmp/wtm", exist_ok=True)
    subprocess.run(["git", "-C", "/repo", "worktree", "prune"], capture_output=True)
    r = subprocess.run(["git", "-C", "/repo", "worktree", "add", "--detach", wt, "HEAD", "-q"], capture_output=True, text=True)
    res = dict(name=name, property=prop, applies=False, checks={})
    try:
        a = subprocess.run(["git", "-C", wt, "apply", f"{d}/patch.diff"], capture_output=True, text=True)
        res["applies"] = a.returncode == 0
        if not res["applies"]:
            res["apply_error"] = a.stderr[-300:]
            return res
        for chk in [prop] + EXTRA.get(name, []):
            env = dict(os.environ, VERIF_REPO_SRC=f"{wt}/src")
            p = subprocess.run([f"{V}/check", chk, "--no-evidence"], capture_output=True, text=True, env=env, cwd=V, timeout=3000)
            claims = sorted({ln.split("claim=")[1].split(" ")[0] for ln in p.stdout.splitlines() if ln.strip().startswith("claim=")})
            if os.environ.get("SEED_VERBOSE"):
                print("\n".join(ln[:400] for ln in p.stdout.splitlines() if not ln.startswith("  claim="))[-3000:], flush=True)
            res["checks"][chk] = dict(exit=p.returncode, violations=sum(1 for ln in p.stdout.splitlines() if ln.startswith("VIOLATION")), claims=claims[:8], detected=(p.returncode == 1))
    finally:
        subprocess.run(["git", "-C", "/repo", "worktree", "remove", "--force", wt], capture_output=True)
    return res


def main():
    names = sys.argv[1:] or sorted(n for n in os.listdir(f"{V}/seeded") if os.path.isdir(f"{V}/seeded/{n}"))
    out = {}
    with ThreadPoolExecutor(max_workers=3) as ex:
        for res in ex.map(run, names):
            out[res["name"]] = res
            print(res["name"], "applies" if res["applies"] else "DOES NOT APPLY", {k: (v["exit"], v["violations"]) for k, v in res["checks"].items()}, flush=True)
    path = f"{V}/seeded/RESULTS.json"
    old = json.load(open(path)) if os.path.exists(path) else {}
    old.update(out)
    json.dump(old, open(path, "w"), indent=1)


if __name__ == "__main__":
    main()
