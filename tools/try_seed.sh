#!/bin/sh
# usage: tools/try_seed.sh <patch.diff> <ID> [extra check args]  -- applies a seeded change to /repo, runs the check, reverts
patch="$1"; id="$2"; shift 2
git -C /repo diff --quiet || { echo "/repo has local modifications"; exit 2; }
git -C /repo apply "$patch" || { echo "patch does not apply"; exit 2; }
cd /verif && ./check "$id" --no-evidence "$@" 2>&1 | grep -v "^  claim=" | tail -${TAIL:-12}
rc=$?
git -C /repo checkout -- .
git -C /repo status --short | head -3
