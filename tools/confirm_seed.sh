#!/bin/sh
# usage: tools/confirm_seed.sh <PID> <A|B>   -- confirms a seeded change in a scratch worktree and files it under /verif/seeded/
# (demo passes without the change, fails with it, unit suite still passes with it)
pid="$1"; x="$2"; src="/tmp/seed/$pid"; name="$pid-$x"
wt="/tmp/wtc/$name"; mkdir -p /tmp/wtc; rm -rf "$wt"
git -C /repo worktree add --detach "$wt" HEAD -q || exit 2
out="/verif/seeded/$name"; mkdir -p "$out"
cp "$src/patch_$x.diff" "$out/patch.diff"; sed -E "s#/tmp/wt[2345]?/C[0-9]+#$wt#g" "$src/demo_$x.py" > "$out/demo.py"
cd "$wt"
PYTHONPATH="$wt/src" /venv/bin/python "$out/demo.py" > "$out/demo_without.log" 2>&1; r0=$?
if ! git apply "$out/patch.diff"; then echo "$name: patch does not apply to HEAD"; git -C /repo worktree remove --force "$wt"; exit 2; fi
PYTHONPATH="$wt/src" /venv/bin/python "$out/demo.py" > "$out/demo_with.log" 2>&1; r1=$?
PYTHONPATH="$wt/src" /venv/bin/python -m pytest -q -p no:cacheprovider --timeout=900 tests/unit > "$out/suite_with.log" 2>&1; r2=$?
tail -1 "$out/suite_with.log" > "$out/suite_with.summary"; rm -f "$out/suite_with.log"
sed -i "s#$wt#<worktree>#g" "$out/demo.py"
cd /; git -C /repo worktree remove --force "$wt"
echo "$name: demo_without=$r0 demo_with=$r1 suite_with=$r2 ($(cat $out/suite_with.summary))"
echo "{\"demo_without_exit\": $r0, \"demo_with_exit\": $r1, \"suite_with_exit\": $r2}" > "$out/confirm.json"
