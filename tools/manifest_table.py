add("C15", "symbolic execution of quadrature.gauss* with exact algebraic literals; z3 (QF_NRA) decides exactness for the generic polynomial with symbolic coefficients",
    "Bounded symbolic model checking: every accepted (dim, order) rule on both cells is executed from source with exact literals; one unsat query per rule covers all polynomials of the nominal degree (coefficients are unbounded reals). Exhaustive over the finite configuration space, universal over polynomials.",
    "Trusts z3's nonlinear real arithmetic, the literal lifting (float literal text -> rational, np.sqrt -> algebraic root) and the symx shims (validated against the plain import on every run). IEEE rounding of the tables is outside (replay compares at 1e-9).",
    "DESIGN.md §5 C15")
add("C06", "symbolic execution of Grid/FV operators (symx): voxel sizes, fluxes, cell fields and evaluation point are z3 reals; each identity is an unsat query against closed-form index arithmetic",
    "Bounded symbolic model checking: for every enumerated grid shape the real FVDivergence / FVMass / face_to_cell / cell_to_face_average / tangential reconstruction are executed on symbolic voxel sizes, fluxes, fields and evaluation point; the divergence theorem, adjointness, RT0 interpolation, means and constant reproduction hold for ALL real values (unsat), shapes bounded as stated in the evidence.",
    "Trusts z3 (QF_NRA), the scipy.sparse stand-in (structure from real scipy shadows) and numpy shims, validated against the plain import each run; hmean is a contract stub; exact reals instead of doubles.",
    "DESIGN.md §5 C06")
add("C07", "real Grid._setup tables loaded as finite functions; bijection / inverse / partition / corner statements asserted for symbolic face, cell and side indices and decided by z3 (QF_LIA); shapes enumerated",
    "Bounded model checking over an enumerated configuration space: per shape, z3 decides each statement for all index values at once against closed-form Fortran numbering; generate_grid with symbolic dimensions. The solver's role is weak here (finite tables), stated in DESIGN.md.",
    "Shapes are enumerated, not symbolic; trusts z3 integer arithmetic with div/mod by constants and the closed-form oracle in checks/oracles.py.",
    "DESIGN.md §5 C07")
add("C01", "symbolic execution of Image/CoordinateSystem/typed points (symx): dimensions, origin, an unbounded integer voxel index and the in-voxel offset are z3 variables; QF_LIRA/NRA unsat queries against the orientation oracle",
    "Bounded symbolic model checking: for each enumerated (space_dim, shape, origin kind, payload kind) the real conversion code is executed once on symbolic dimensions, origin, voxel index (unbounded, so the whole halo is covered) and offset; origin/opposite-corner/step/round-trip/batch claims hold for all values (unsat).",
    "Exact reals, not doubles (floor() under IEEE rounding is outside this check); shapes enumerated up to the stated extents; engine shims validated against the plain import per run.",
    "DESIGN.md §5 C01")
add("C02", "symbolic execution of Image.subregion/time_slice/time_interval/append/stack (symx): voxel values, geometry, times, ROI bounds and corner points symbolic; ROI bounds concretised by solver-guided case split; per-path unsat queries",
    "Bounded symbolic model checking over programs of extraction steps: data-block identity is term-wise over distinct symbolic voxel values, placement is checked for a symbolic probe voxel, every non-empty range / open end / clipped corner is reached as a solver-chosen path.",
    "Program lengths, shapes and series lengths bounded as stated in the evidence; dates are concrete; exact reals.",
    "DESIGN.md §5 C02")
add("C13", "symbolic execution of ConcentrationAnalysis (symx) with the stages as uninterpreted functions; stage order, cleaning filter, diff options and metadata decided by z3 (EUF + LRA), counterexamples replayed with the solver's own function interpretation",
    "Bounded symbolic model checking: pixels are symbolic reals, reduction/balancing/restoration/model are uninterpreted functions (restoration non-local), so any swapped, skipped, duplicated or mis-fed stage changes the result term; all diff options, stage-presence patterns, both orders, 0..3 extra baselines.",
    "Shapes 2x2 / 1x2; integer dtypes with concrete values (promotion by skimage trusted); compare_images stubbed as |a-b|.",
    "DESIGN.md §5 C13")
add("C03", "symbolic execution of the Geometry classes' integrate/normalize and arithmetics.weight (symx): data, sizes, weights symbolic; the call history enters as a symbolic cache pre-state (one inductive step) and as explicit call sequences; z3 (QF_NRA) unsat queries",
    "Bounded symbolic model checking: weighted-sum, linearity, resolution independence (integer factors incl. 3 and 6), normalisation and history independence are decided for all real data/sizes/weights; the inductive cache-state step covers call sequences of any length for scalar volumes.",
    "cv2.resize(INTER_AREA) is a contract stub (exact area resampling), validated against real cv2 on constants each run; native shapes bounded (4 / 2x4 / 2x2x2); exact reals.",
    "DESIGN.md §5 C03")
add("C08", "symbolic execution of the formulation / back-end dispatch and the hand-written CSC row/column surgery (symx with a scipy.sparse stand-in whose storage layout comes from real scipy shadows); back-ends = exact-solve contract stubs; z3 decides that the reconstructed solution satisfies the original full system",
    "Bounded symbolic model checking: for every enumerated grid shape, formulation and back-end the real linear_solve / eliminate_* code runs on symbolic positive face weights and right-hand sides; the back-end returns a fresh vector satisfying the reduced system it was handed, and z3 proves all block rows of the ORIGINAL system hold, for successive systems with and without solver reuse; uniqueness of the solution (homogeneous system) on small shapes.",
    "Linear solvers are exact (contract stubs, incl. SuperLU's in-place index sorting); sparsity structure is the generic one (no exact cancellation); shapes bounded as in the evidence; PETSc outside.",
    "DESIGN.md §5 C08")
add("C04", "symbolic execution of the Newton / Bregman iterations (symx): every inner linear solve is a fresh vector constrained by the system the real code assembled, the fault index is a symbolic integer, norms and the cost functional are uninterpreted functions; z3 (LRA+EUF, NRA on the smallest grids) decides mass balance, distance = cost of the returned flux, the converged flag and the derived outputs on every path",
    "Bounded symbolic model checking with fault injection: all control-flow paths of <= 3 (quick) / 4 (thorough) iterations incl. every position of a failing inner linear solve or mobility evaluation (solver-chosen), Anderson mixing with arbitrary coefficients; the transport density is additionally compared with an independent RT0-quadrature oracle.",
    "Exact linear solver (contract stub); face weights arbitrary positive only on (3,)/(2,) grids, elsewhere fixed rationals that change per call; norms uninterpreted; grids <= 6 cells (quick: 4 grids); convergence itself outside.",
    "DESIGN.md §5 C04")
add("C20", "enumeration of the finite convention tables against the coordinate-system oracle, plus symbolic execution (symx) of Image.slice / reduce_axis / matrixToCartesianIndexing on symbolic voxel values, geometry and cut coordinate; z3 decides data selection by name vs by index",
    "Exhaustive over the finite tables (dims 1..3, every axis, str/int forms, both directions) and bounded symbolic model checking of the data-selection claims (shapes in the evidence).",
    "The convention pinned by the repo's tests / interpret_indexing is the reference; 1-D single-axis helpers and a 3-D inverse layout helper do not exist in the API.",
    "DESIGN.md §5 C20")
