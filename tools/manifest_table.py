add("C15", "symbolic execution of quadrature.gauss* with exact algebraic literals; z3 (QF_NRA) decides exactness for the generic polynomial with symbolic coefficients",
    "Bounded symbolic model checking: every accepted (dim, order) rule on both cells is executed from source with exact literals; one unsat query per rule covers all polynomials of the nominal degree (coefficients are unbounded reals). Exhaustive over the finite configuration space, universal over polynomials.",
    "Trusts z3's nonlinear real arithmetic, the literal lifting (float literal text -> rational, np.sqrt -> algebraic root) and the symx shims (validated against the plain import on every run). IEEE rounding of the tables is outside (replay compares at 1e-9).",
    "DESIGN.md §5 C15")
