import sys, time, signal
sys.path.insert(0,'/verif')
from symx import loader, api, core, runner
import importlib
modname = sys.argv[1]
mod = importlib.import_module("checks." + modname)
o = dict(runner.DEFAULTS); o.update(getattr(mod, "OPTIONS", {}))
loader.install(exact_literal_modules=o["exact_literal_modules"])
import warnings; warnings.simplefilter("ignore")
import darsia
if hasattr(mod, "install_stubs"): mod.install_stubs()
import json
cfg = json.loads(sys.argv[2])
sched = json.loads(sys.argv[3]) if len(sys.argv) > 3 else []
def alarm(*a):
    import traceback; traceback.print_stack(); sys.exit(1)
signal.signal(signal.SIGALRM, alarm); signal.alarm(int(sys.argv[4]) if len(sys.argv) > 4 else 60)
t = time.time(); r = runner.child_sym(mod, cfg, sched, o, []); print("child_sym", round(time.time()-t, 2), r["status"], r.get("error"))
print(r.get("stats")); print("schedule", r.get("schedule"), "pending", len(r["pending"]))
for c in r["claims"]: print(c["name"], c["verdict"], round(c["solver_s"], 2))
print(r.get("trace", ""))
